"""C27 — placement does not depend on the order of objects or constraints.
fdtdx.resolve_object_constraints under permutations vs lean/FdtdxModel/C26.lean (shared model, driver prefix C27)."""
import itertools
import json

from . import place_common as pc
from .c26 import compare, digest

RULE = ("K: the constraint systems of the C26 generator (1-8 objects, all five constraint kinds, static shapes/positions, "
        "under-/over-constrained and conflicting systems, uniform and non-uniform grids, tiny max_iter) plus the three witness "
        "families of the defects of the pinned tree (early exit, skipped real position, unknown volume bound) and the multi-axis SizeConstraint family with one axis known statically (seed C27i, 7 systems); each system is solved by fdtdx.resolve_object_constraints under EVERY "
        "permutation of its constraints when it has <= 4 of them (<= 24 orders, combined with reversed/shuffled object lists) and "
        "under 8 random constraint orders x object orders otherwise; a 'staggered' family (2-/3-axis PositionConstraints whose axes "
        "resolve in different passes through SizeConstraint chains of depth 1-3, dependents left to extension-to-infinity, "
        "listed in reverse dependency order) is always present: all 24 orders for its 4-constraint members, identity + "
        "reversed + 12 sampled orders for the 5-6-constraint ones. Oracle (independent of the model): success/failure and "
        "all resolved slices are identical across the orders. Every single run is also compared exactly with the compiled Lean "
        "model run in the same order (raised / flagged objects / all slice bounds). non-trivial = a system with >= 2 "
        "constraints and >= 2 objects under a non-identity order.")


def in_scope(sys):
    """C27 is claimed for runs that are not cut short by max_iter: C27_perm has the explicit escape "the permuted run
    does not settle within its max_iter", and C27_terminates shows 9 * #objects passes always suffice.  Systems with a
    smaller max_iter (the generator makes some, to reach the for-else branch) are only compared with the model."""
    return sys.get("max_iter", 1000) > 9 * len(sys["objects"])


def property_fails(sys, ords):
    if not in_scope(sys):
        return None
    outs = [((oo, co), pc.run_impl(sys, oo, co)) for oo, co in ords]
    return pc.c27_violation(sys, outs)


def all_orders(sys, cap=720):
    no, nc = len(sys["objects"]), len(sys["constraints"])
    res = []
    for co in itertools.islice(itertools.permutations(range(nc)), cap):
        res.append((list(range(no)), list(co)))
    res.append((list(range(no))[::-1], list(range(nc))))
    return res


def run(ctx):
    n = ctx.scale(55, 900)
    rng = ctx.rng.fork()          # see c26.run: decorrelates consecutive seeds
    systems = [(pc.witness_early_exit(), {"family": "witness"}), (pc.witness_real_position_skip(), {"family": "witness"}),
           (pc.witness_volume_bound(), {"family": "witness"})]
    for s in pc.witness_multiaxis_size():
        systems.append((s, {"family": "witness"}))
    for s in pc.small_systems()[1:: ctx.scale(4, 1)]:
        systems.append((s, {"family": "small"}))
    for s in pc.staggered_systems(rng, n_random=ctx.scale(6, 40)):
        systems.append((s, {"family": "staggered"}))
    n += len(systems)
    while len(systems) < n:
        s, tags = pc.gen_system(rng, big=ctx.thorough and rng.chance(0.3))
        tags["family"] = "generated"
        systems.append((s, tags))
    jobs = []
    for s, tags in systems:
        nc, no = len(s["constraints"]), len(s["objects"])
        ords = pc.orders(s, rng, max_perm_cons=4, n_random=ctx.scale(4, 8) if tags["family"] != "staggered" else ctx.scale(12, 40))
        outs = []
        for oo, co in ords:
            out = pc.run_impl(s, oo, co)
            outs.append(((oo, co), out))
            jobs.append((s, oo, co, out))
            ident = oo == list(range(no)) and co == list(range(nc))
            kind = "ok" if pc.ok(out) else ("errors" if out["kind"] == "done" else "raised")
            ctx.case(sample={"sys": pc.strip(s), "obj_order": oo, "con_order": co, "impl": out} if len(jobs) in (2, 300) else None,
                     nontrivial=digest(s, oo, co) if (nc >= 2 and no >= 2 and not ident) else None,
                     outcome=kind, grid=tags.get("grid", "uniform"), objects=no, constraints=min(nc, 12),
                     orders_per_system=len(ords), perturbation=tags.get("perturbation", tags["family"]),
                     all_permutations=nc <= 4)
        ctx.impl_property_evals += 1
        d = pc.c27_disagreement(outs) if in_scope(s) else None
        if d:
            if not ctx.violations:                      # shrink the first one only
                _report(ctx, s, ords)
            else:
                ctx.violation({"sys": pc.strip(s), "orders": [[list(d[1][0]), list(d[1][1])], [list(d[2][0]), list(d[2][1])]]}, d[0])
    compare(ctx, jobs)


# ------------------------------------------------------------------------------------------- S
def _report(ctx, s, ords):
    """shrink (fewer constraints / objects, same relative orders) and report"""
    if not in_scope(s):
        return False
    outs = [((oo, co), pc.run_impl(s, oo, co)) for oo, co in ords]
    d = pc.c27_disagreement(outs)
    if d is None:
        return False
    detail, a, b = d
    res = pc.shrink_pair(s, a, b, lambda c, o2, c2: property_fails(
        c, [(list(range(len(c["objects"]))), list(range(len(c["constraints"])))), (o2, c2)]))
    if res is not None:
        small, pair = res
        detail2 = property_fails(small, pair)
        ctx.violation({"sys": pc.json_copy(small), "orders": [[list(o), list(c)] for o, c in pair]}, detail2)
    else:
        ctx.violation({"sys": pc.strip(s), "orders": [[list(a[0]), list(a[1])], [list(b[0]), list(b[1])]]}, detail)
    return True


def search(ctx, hints):
    for h in hints[:40]:
        if isinstance(h, dict) and "sys" in h:
            s = pc.json_copy(h["sys"])           # a copy: running it caches built objects on the dict
            ctx.impl_property_evals += 1
            if _report(ctx, s, all_orders(s, cap=120)):
                return
    for s in pc.small_systems():
        ctx.impl_property_evals += 1
        if _report(ctx, s, all_orders(s)):
            return
    rng = ctx.rng.fork()
    for _ in range(ctx.scale(1200, 6000)):
        s, _tags = pc.gen_system(rng)
        ctx.impl_property_evals += 1
        if _report(ctx, s, pc.orders(s, rng, max_perm_cons=4, n_random=8)):
            return


def replay(ctx, inp):
    return property_fails(inp["sys"], [(list(o), list(c)) for o, c in inp["orders"]])
