"""C24 — binary median filter and pillar discretization vs lean/FdtdxModel/C24.lean"""
import itertools

import os

os.environ.setdefault("TQDM_DISABLE", "1")
import numpy as np

RULE = ("K: (a) BinaryMedianFilterModule.__call__ / binary_median_filter on random binary volumes (axes 1..6, singleton axes "
        "included, densities 0.2..0.8, float32/float64/int32), kernel sizes from {1,3,5} (odd, the property's case) and some "
        "even ones {2,4}, padding configs: the two presets of discrete.py, scalar short forms (widths=(w,), modes=(m,), values "
        "None/(v,)), and random per-edge (width 0..3, mode constant-0/constant-1/edge/wrap/reflect/symmetric), num_repeats 1..2, "
        "and kernels longer than the padded axis (convolve raises) — compared exactly with the model. Oracle (numpy, odd kernels): "
        "every output voxel is the majority of its box in the np.pad-ed array (zero beyond it). (b) compute_allowed_indices for "
        "every (layers<=4 quick/5 thorough, materials<=4, fill set of size 1..2, single_polymer_columns) — set compared with the "
        "model's enumeration and with a brute-force filter of all columns by the column predicate. (c) PillarDiscretization.__call__ "
        "(2..4 materials, height 1..5, axis 0/1/2, both metrics, single/multi, named/default background) and "
        "nearest_index(return_distances=True): distances to 1e-9, chosen column exactly (ties within 1e-12 may pick either); "
        "oracle: chosen column satisfies the predicate and minimises the numpy distance over the brute-force allowed set. "
        "non-trivial = padding with a non-constant mode or width>0 / kernel>1 ; pillar cases with >=3 materials or single=True.")

_c = {}


def J():
    if "jax" not in _c:
        import jax
        jax.config.update("jax_enable_x64", True)
        import jax.numpy as jnp
        from fdtdx.core.misc import PaddingConfig
        from fdtdx.objects.device.parameters import binary_transform as bt
        from fdtdx.objects.device.parameters import discrete as ds
        from fdtdx.objects.device.parameters import utils as ut
        from fdtdx.objects.device.parameters.discretization import PillarDiscretization
        from fdtdx.materials import Material
        from fdtdx.typing import ParameterType
        from fdtdx.config import SimulationConfig
        from fdtdx.core.grid import UniformGrid
        import logging
        try:
            from loguru import logger
            logger.disable("fdtdx")
        except Exception:
            pass
        _c.update(jax=jax, jnp=jnp, PaddingConfig=PaddingConfig, bt=bt, ds=ds, ut=ut, Pillar=PillarDiscretization,
                  Material=Material, PT=ParameterType,
                  cfg=SimulationConfig(time=100e-15, grid=UniformGrid(spacing=500e-9), backend="cpu"))
    return _c


def bits(m):
    return "".join("1" if x else "0" for x in np.asarray(m).astype(bool).ravel())


def unbits(s, shape):
    return np.frombuffer(s.encode(), dtype=np.uint8).reshape(shape) == ord("1")


# ===================================================================================== median filter
def norm_cfg(cfg):
    """six (width, mode, value) triples from the (possibly short-form) config"""
    w, m, v = list(cfg["widths"]), list(cfg["modes"]), cfg["values"]
    if len(w) == 1:
        w = w * 6
    if len(m) == 1:
        m = m * 6
    v = [0] * 6 if v is None else list(v)
    if len(v) == 1:
        v = v * 6
    return list(zip(w, m, v))


def med_line(a, ks, cfg):
    parts = []
    for (w, m, v) in norm_cfg(cfg):
        parts += [str(w), m, str(int(v))]
    return f"med {a.shape[0]} {a.shape[1]} {a.shape[2]} {ks[0]} {ks[1]} {ks[2]} {' '.join(parts)} {bits(a)}"


def impl_median(a, ks, cfg, dtype="float32", repeats=1, module=True):
    j = J()
    pc = j["PaddingConfig"](widths=tuple(cfg["widths"]), modes=tuple(cfg["modes"]),
                            values=None if cfg["values"] is None else tuple(cfg["values"]))
    arr = j["jnp"].asarray(a, dtype=getattr(j["jnp"], dtype))
    try:
        if module:
            t = j["ds"].BinaryMedianFilterModule(padding_cfg=pc, kernel_sizes=tuple(ks), num_repeats=repeats)
            mats = {"Air": j["Material"](permittivity=1.0), "Si": j["Material"](permittivity=11.7)}
            t = t.init_module(config=j["cfg"], materials=mats, matrix_voxel_grid_shape=a.shape,
                              single_voxel_size=(1e-6,) * 3, output_shape={"p": a.shape})
            t = t.init_type({"p": j["PT"].BINARY})
            out = t({"p": arr})["p"]
        else:
            out = arr
            for _ in range(repeats):
                out = j["bt"].binary_median_filter(out, tuple(ks), pc)
        out = np.asarray(out)
    except ValueError:
        return "error"
    if out.shape != a.shape:
        return f"shape {out.shape}"
    return out


def oracle_median(a, ks, cfg):
    """majority of the box around every voxel in the np.pad-ed array (zero beyond). odd kernels only"""
    p = np.asarray(a).astype(np.int64)
    lo = [0, 0, 0]
    for e, (w, m, v) in enumerate(norm_cfg(cfg)):
        ax, end = e // 2, e % 2
        pw = [(0, 0)] * 3
        pw[ax] = (0, w) if end else (w, 0)
        kw = {"constant_values": int(v)} if m == "constant" else {}
        p = np.pad(p, pw, mode=m, **kw)
        if not end:
            lo[ax] = w
    h = [k // 2 for k in ks]
    big = np.pad(p, [(x, x) for x in h])      # zero beyond the padded array
    out = np.zeros(a.shape, dtype=bool)
    K = ks[0] * ks[1] * ks[2]
    for i in range(a.shape[0]):
        for jj in range(a.shape[1]):
            for k in range(a.shape[2]):
                c = (i + lo[0], jj + lo[1], k + lo[2])
                box = big[c[0]:c[0] + ks[0], c[1]:c[1] + ks[1], c[2]:c[2] + ks[2]]
                out[i, jj, k] = 2 * int(box.sum()) > K
    return out


MODES = ["constant", "constant", "edge", "edge", "wrap", "reflect", "symmetric"]


def gen_cfg(ctx, shape):
    r = ctx.rng
    kind = r.choice(["preset", "preset-repeat", "scalar", "scalar-none", "random", "random", "random", "zero"])
    if kind == "preset":
        return kind, {"widths": [10], "modes": ["constant"] * 6, "values": [1, 0, 1, 1, 1, 0]}
    if kind == "preset-repeat":
        return kind, {"widths": [20], "modes": ["edge", "edge", "edge", "edge", "constant", "edge"], "values": [1]}
    if kind == "scalar":
        return kind, {"widths": [r.randint(0, 3)], "modes": [r.choice(["constant", "edge"])], "values": [r.randint(0, 1)]}
    if kind == "scalar-none":
        return kind, {"widths": [r.randint(1, 3)], "modes": [r.choice(["constant", "edge"])], "values": None}
    if kind == "zero":
        return kind, {"widths": [0] * 6, "modes": ["edge"] * 6, "values": [0] * 6}
    dims = list(shape)
    w, m, v = [], [], []
    for e in range(6):
        n = dims[e // 2]
        mode = r.choice(MODES)
        wid = r.randint(0, 3)
        if mode == "reflect":
            wid = min(wid, n - 1)
        if mode in ("wrap", "symmetric"):
            wid = min(wid, n)
        dims[e // 2] += wid
        w.append(wid); m.append(mode); v.append(r.randint(0, 1))
    return kind, {"widths": w, "modes": m, "values": v}


def median_fails(inp):
    a = unbits(inp["bits"], tuple(inp["shape"]))
    ks, cfg = inp["ks"], inp["cfg"]
    if any(k % 2 == 0 for k in ks):
        return None
    cur = a
    for _ in range(inp.get("repeats", 1)):
        got = impl_median(cur, ks, cfg, inp.get("dtype", "float32"), 1, module=False)
        if isinstance(got, str):
            return None
        want = oracle_median(cur, ks, cfg)
        if not np.array_equal(got.astype(bool), want) or not np.isin(got, (0, 1)).all():
            bad = np.argwhere(got.astype(bool) != want)
            return (f"binary_median_filter shape {a.shape} kernels {ks} padding {cfg}: voxel {bad[0].tolist() if len(bad) else '?'} "
                    f"is not the majority of its box neighbourhood")
        cur = want
    return None


def run_median(ctx):
    nconf, per = ctx.scale((20, 3), (120, 4))     # every new (shape, kernel, padding, dtype) is a fresh XLA compilation
    lines, cases = [], []
    for c in range(nconf * per):
      r = ctx.rng
      if c % per == 0:
        shape = tuple(r.choice([1, 2, 3, 3, 4, 5, 6]) for _ in range(3))
        kind, cfg = gen_cfg(ctx, shape)
        conf = c // per
        if conf % 6 == 5:
            ks = [r.choice([1, 2, 3, 4]) for _ in range(3)]
        else:
            ks = [r.choice([1, 3, 3, 5]) for _ in range(3)]
        if conf % 10 == 9:          # kernel longer than the padded axis
            kind, cfg = "zero", {"widths": [0] * 6, "modes": ["edge"] * 6, "values": [0] * 6}
            ax = r.randint(0, 2)
            ks = [1, 1, 1]
            ks[ax] = shape[ax] + 1 + r.randint(0, 2)
        dtype = r.choice(["float32", "float32", "float64", "int32"])
        reps = 2 if conf % 7 == 3 else 1
        use_module = conf % 4 != 0
      if True:
        a = np.random.default_rng(r.np_seed()).random(shape) < r.choice([0.2, 0.4, 0.5, 0.6, 0.8])
        cases.append({"shape": list(shape), "bits": bits(a), "ks": ks, "cfg": cfg, "dtype": dtype, "repeats": reps, "kind": kind, "op": "med",
                      "module": use_module})
        lines.append(med_line(a, ks, cfg))
    reps1 = ctx.driver.ask_many(lines)
    # second application for num_repeats = 2
    again = [(i, med_line(unbits(reps1[i], tuple(c["shape"])), c["ks"], c["cfg"])) for i, c in enumerate(cases)
             if c["repeats"] == 2 and reps1[i] not in ("error", "unsupported", "bad-op")]
    reps2 = dict(zip([i for i, _ in again], ctx.driver.ask_many([l for _, l in again]))) if again else {}
    for i, case in enumerate(cases):
        model = reps2.get(i, reps1[i])
        a = unbits(case["bits"], tuple(case["shape"]))
        got = impl_median(a, case["ks"], case["cfg"], case["dtype"], case["repeats"], module=case["module"])
        impl = got if isinstance(got, str) else bits(got != 0)
        trivial = all(k == 1 for k in case["ks"])
        ctx.case(sample=case if i == 1 else None, nontrivial=None if trivial else ("med", i, case["bits"][:32], str(case["ks"])),
                 op="med", padding=case["kind"], kernel="x".join(map(str, case["ks"])), dtype=case["dtype"],
                 outcome="error" if impl == "error" else "ok")
        ctx.expect_equal("med", case, impl, model)
        if not isinstance(got, str):
            ctx.impl_property_evals += 1
            d = median_fails(case)
            if d:
                ctx.violation(case, d)


# ===================================================================================== pillars: allowed columns
def col_ok(col, fills, single):
    """column predicate: background (a fill index) only as a block at the top end, below it only non-fill materials"""
    L = len(col)
    for f in fills:
        for i in range(L + 1):
            low, top = col[:L - i], col[L - i:]
            if all(x == f for x in top) and all(x not in fills for x in low):
                if not single or len(set(low)) <= 1:
                    return True
    return False


def brute_allowed(L, nind, fills, single):
    return sorted("".join(map(str, c)) for c in itertools.product(range(nind), repeat=L) if col_ok(c, fills, single))


def impl_cols(L, nind, fills, single):
    arr = np.asarray(J()["ut"].compute_allowed_indices(num_layers=L, indices=list(range(nind)), fill_holes_with_index=list(fills),
                                                      single_polymer_columns=single))
    return arr.reshape(-1, L) if arr.size else arr.reshape(0, L)


def cols_fails(inp):
    arr = impl_cols(inp["L"], inp["nind"], inp["fills"], inp["single"])
    got = sorted({"".join(map(str, r)) for r in arr.tolist()})
    want = brute_allowed(inp["L"], inp["nind"], inp["fills"], inp["single"])
    if got != want:
        extra = sorted(set(got) - set(want))[:3]
        missing = sorted(set(want) - set(got))[:3]
        return (f"compute_allowed_indices(L={inp['L']}, materials={inp['nind']}, fills={inp['fills']}, single={inp['single']}): "
                f"not allowed but returned {extra}, allowed but missing {missing}")
    return None


def run_cols(ctx):
    Lmax = ctx.scale(4, 5)
    cases = []
    for L in range(1, Lmax + 1):
        for nind in range(2, 5):
            fillsets = [[f] for f in range(nind)] + ([[0, 1]] if nind >= 3 else [])
            for fills in fillsets:
                for single in (False, True):
                    if nind ** L > 300:
                        continue
                    cases.append({"op": "cols", "L": L, "nind": nind, "fills": fills, "single": single})
    reps = ctx.driver.ask_many([f"cols {int(c['single'])} {c['L']} {c['nind']} {' '.join(map(str, c['fills']))}" for c in cases])
    for case, rep in zip(cases, reps):
        arr = impl_cols(case["L"], case["nind"], case["fills"], case["single"])
        got = sorted({"".join(map(str, r)) for r in arr.tolist()})
        ctx.case(sample={**case, "model": rep} if (case["L"], case["nind"], case["single"]) == (3, 3, True) and case["fills"] == [0] else None,
                 nontrivial=("cols", case["L"], case["nind"], str(case["fills"]), case["single"]), op="cols", layers=case["L"],
                 materials=case["nind"], single=case["single"])
        ctx.expect_equal("cols", case, "|".join(got), rep)
        ctx.impl_property_evals += 1
        d = cols_fails(case)
        if d:
            ctx.violation(case, d)


# ===================================================================================== pillars: nearest column
PERMS = [1.0, 2.25, 4.0, 11.7]


def build_pillar(nmat, shape, axis, single, metric, bg_name):
    j = J()
    key = ("pillar", nmat, tuple(shape), axis, single, metric, bg_name)
    if key in j:
        return j[key]
    names = ["m%d" % i for i in range(nmat)]
    mats = {names[i]: j["Material"](permittivity=PERMS[i]) for i in range(nmat)}
    t = j["Pillar"](axis=axis, single_polymer_columns=single, distance_metric=metric, background_material=bg_name)
    t = t.init_module(config=j["cfg"], materials=mats, matrix_voxel_grid_shape=shape, single_voxel_size=(1e-6,) * 3,
                      output_shape={"p": shape})
    t = t.init_type({"p": j["PT"].CONTINUOUS})
    j[key] = t
    return t


def np_dist(metric, v, a):
    v, a = np.asarray(v, dtype=np.float64), np.asarray(a, dtype=np.float64)
    if metric == "euclidean" or len(v) == 1:
        return float(np.sqrt(((v - a) ** 2).sum()))
    return float(np.abs(np.diff(v) - np.diff(a)).mean() + abs(v.mean() - a.mean()))


def pillar_eval(inp):
    """run the implementation; returns (result array, allowed index array, values)"""
    shape, axis = tuple(inp["shape"]), inp["axis"]
    t = build_pillar(inp["nmat"], shape, axis, inp["single"], inp["metric"], inp["bg"])
    vals = np.asarray(inp["values"], dtype=np.float64).reshape(shape)
    out = np.asarray(t({"p": J()["jnp"].asarray(vals)})["p"])
    return out, np.asarray(t._allowed_indices), vals


def pillar_fails(inp, res=None):
    try:
        out, allowed, vals = pillar_eval(inp) if res is None else res
    except (TypeError, ValueError, IndexError) as e:
        return f"PillarDiscretization raises {type(e).__name__} on shape {inp['shape']} axis {inp['axis']} ({inp['nmat']} materials)"
    shape, axis = tuple(inp["shape"]), inp["axis"]
    if out.shape != shape:
        return f"PillarDiscretization returned shape {out.shape} for input {shape}"
    L, nmat = shape[axis], inp["nmat"]
    bgi = 0 if inp["bg"] is None else int(inp["bg"][1:])
    inv = [1.0 / p for p in PERMS[:nmat]]
    legal = [tuple(int(ch) for ch in s) for s in brute_allowed(L, nmat, [bgi], inp["single"])]
    vc = np.moveaxis(vals, axis, -1).reshape(-1, L)
    oc = np.moveaxis(out, axis, -1).reshape(-1, L)
    for v, o in zip(vc, oc):
        col = tuple(int(round(x)) for x in o)
        if any(abs(x - c) > 0 for x, c in zip(o, col)) or col not in legal:
            return f"PillarDiscretization (axis {axis}, {nmat} materials, single={inp['single']}, background {bgi}): column {list(o)} is not an allowed column"
        d = np_dist(inp["metric"], v, [inv[m] for m in col])
        best = min(np_dist(inp["metric"], v, [inv[m] for m in c]) for c in legal)
        if d > best + 1e-12 * max(1.0, best):
            return (f"PillarDiscretization (axis {axis}, metric {inp['metric']}, single={inp['single']}): input column {v.tolist()} mapped to "
                    f"{list(col)} at distance {d!r}, but an allowed column at distance {best!r} exists")
    return None


def run_pillars(ctx):
    from .common import f2h, h2f
    j = J()
    n = ctx.scale(9, 60) * 4       # 4 value styles per configuration (one compilation per configuration)
    for c in range(n):
        r = ctx.rng
        if c % 4 == 0:
            nmat = r.choice([2, 3, 3, 4])
            q = c // 4
            axis = q % 3              # every axis, and for the first configurations two different transverse sizes
            L = r.choice([1, 2, 3, 3, 4]) if not ctx.thorough else r.choice([1, 2, 3, 4, 5])
            if nmat == 4:
                L = min(L, 4)
            if q < 6:
                L = max(L, 2)
                shape = [2, 3, 2] if q % 2 == 0 else [3, 1, 2]
                if shape[(axis + 1) % 3] == shape[(axis + 2) % 3]:
                    shape[(axis + 1) % 3] += 1
            else:
                shape = [r.randint(1, 3), r.randint(1, 3), r.randint(1, 3)]
            shape[axis] = L
            single = r.chance(0.5)
            metric = r.choice(["euclidean", "permittivity_differences_plus_average_permittivity"])
            bg = r.choice([None, None] + ["m%d" % i for i in range(nmat)])
            inv = [1.0 / p for p in PERMS[:nmat]]
        rr = np.random.default_rng(r.np_seed())
        vals = rr.uniform(min(inv) - 0.2, max(inv) + 0.2, size=shape)
        style = c % 4
        if style == 1:      # exactly on material values
            vals = rr.choice(inv, size=shape)
        elif style == 2:    # midpoints between two materials: exact ties of the per-layer distance
            vals = rr.choice([(inv[a] + inv[b]) / 2 for a in range(nmat) for b in range(nmat)], size=shape)
        inp = {"op": "pillar", "nmat": nmat, "shape": shape, "axis": axis, "single": single, "metric": metric, "bg": bg,
               "values": vals.ravel().tolist()}
        out, allowed, _ = pillar_eval(inp)
        allowed = allowed.reshape(-1, L)
        # distances straight from nearest_index
        idx, dist = j["ut"].nearest_index(values=j["jnp"].asarray(vals), allowed_values=j["jnp"].asarray(inv), axis=axis,
                                          allowed_indices=j["jnp"].asarray(allowed), return_distances=True, distance_metric=metric)
        idx = np.moveaxis(np.asarray(idx)[..., None], -1, axis) if False else np.asarray(idx)
        dist = np.asarray(dist)                               # (n_allowed, other dims…)
        vc = np.moveaxis(vals, axis, -1).reshape(-1, L)
        oc = np.moveaxis(out, axis, -1).reshape(-1, L) if out.shape == tuple(shape) else None
        dc = dist.reshape(len(allowed), -1).T                 # (columns, n_allowed)
        ic = idx.reshape(-1)
        colstr = " ".join("".join(map(str, a)) for a in allowed.tolist())
        lines = [f"near {int(metric == 'euclidean')} {L} {nmat} {' '.join(f2h(x) for x in inv)} {len(allowed)} {colstr} " +
                 " ".join(f2h(x) for x in v) for v in vc]
        reps = ctx.driver.ask_many(lines)
        ctx.case(sample={k: inp[k] for k in ("nmat", "shape", "axis", "single", "metric", "bg")} if c == 0 else None,
                 nontrivial=("pillar", c) if (nmat >= 3 or single) else None, op="pillar", materials=nmat, layers=L, axis=axis,
                 single=single, metric=metric[:4], background=str(bg), style=style)
        if oc is None:
            ctx.mismatch("pillar-shape", inp, {"impl": str(out.shape)})
        for q, rep in enumerate(reps):
            toks = rep.split()
            if len(toks) != len(allowed) + 1:
                ctx.mismatch("near", inp, {"model": rep[:200]})
                break
            am, md = int(toks[0]), [h2f(t) for t in toks[1:]]
            ctx.expect_close("near-dist", {**inp, "column": q}, dc[q], md, tol=1e-9)
            if int(ic[q]) != am:
                srt = sorted(md)
                if not (abs(md[int(ic[q])] - srt[0]) <= 1e-12 * max(1.0, srt[0])):
                    ctx.mismatch("near-argmin", {**inp, "column": q}, {"impl": int(ic[q]), "model": am})
            if oc is not None and not np.array_equal(oc[q], allowed[int(ic[q])]):
                ctx.mismatch("pillar-gather", {**inp, "column": q}, {"impl": oc[q].tolist(), "allowed[idx]": allowed[int(ic[q])].tolist()})
        ctx.impl_property_evals += 1
        d = pillar_fails(inp, (out, allowed, vals))
        if d:
            ctx.violation(inp, d)


def run(ctx):
    run_cols(ctx)
    run_median(ctx)
    run_pillars(ctx)


# ------------------------------------------------------------------------------------------- S
def property_fails(inp):
    op = inp.get("op")
    if op == "med":
        return median_fails(inp)
    if op == "cols":
        return cols_fails(inp)
    if op == "pillar":
        return pillar_fails(inp)
    return None


def search(ctx, hints):
    for h in hints:
        if isinstance(h, dict) and "op" in h:
            ctx.impl_property_evals += 1
            hh = {k: v for k, v in h.items() if k != "column"}
            if hh.get("op") == "med" and any(k % 2 == 0 for k in hh["ks"]):
                hh = {**hh, "ks": [k + 1 - k % 2 for k in hh["ks"]]}
            d = property_fails(hh)
            if d:
                ctx.violation(hh, d)
                return
    # smallest first
    for L in range(1, 5):
        for nind in range(2, 5):
            for fills in [[0], [nind - 1]]:
                for single in (False, True):
                    c = {"op": "cols", "L": L, "nind": nind, "fills": fills, "single": single}
                    ctx.impl_property_evals += 1
                    d = cols_fails(c)
                    if d:
                        ctx.violation(c, d)
                        return
    r = ctx.rng
    for t in range(300):
        shape = tuple(r.randint(1, 4) for _ in range(3))
        a = np.random.default_rng(r.np_seed()).random(shape) < 0.5
        kind, cfg = gen_cfg(ctx, shape)
        c = {"op": "med", "shape": list(shape), "bits": bits(a), "ks": [r.choice([1, 3, 5]) for _ in range(3)], "cfg": cfg,
             "dtype": "float32", "repeats": 1}
        ctx.impl_property_evals += 1
        d = median_fails(c)
        if d:
            ctx.violation(c, d)
            return
    for t in range(150):
        nmat = r.choice([2, 3, 4])
        axis = r.randint(0, 2)
        shape = [r.randint(1, 2) for _ in range(3)]
        shape[axis] = r.randint(1, 4)
        inv = [1.0 / p for p in PERMS[:nmat]]
        vals = np.random.default_rng(r.np_seed()).uniform(min(inv) - 0.2, max(inv) + 0.2, size=shape)
        c = {"op": "pillar", "nmat": nmat, "shape": shape, "axis": axis, "single": r.chance(0.5),
             "metric": r.choice(["euclidean", "permittivity_differences_plus_average_permittivity"]),
             "bg": r.choice([None] + ["m%d" % i for i in range(nmat)]), "values": vals.ravel().tolist()}
        ctx.impl_property_evals += 1
        d = pillar_fails(c)
        if d:
            ctx.violation(c, d)
            return


def replay(ctx, inp):
    return property_fails(inp)
