"""C36 — dispersive (ADE) branch of update_E, acceptance of dispersive media, growth in a closed box
vs lean/FdtdxModel/C36.lean"""
import math
import warnings

import numpy as np

RULE = ("K: tiny closed periodic boxes (3..5 cells per axis, also non-cubic) built through place_objects: background "
        "material and an inner block, each non-dispersive or dispersive with 1-3 poles (isotropic Lorentz/Drude -> "
        "1-component coefficient arrays, per-axis poles -> 3-component, CCPR with dE/dt coupling -> c4 array and the "
        "implicit divide), optional conductivity, eps_inf in [1,4], courant_factor in [0.3,0.99], random E and H; "
        "`forward` is stepped 6-8 times and EVERY step is compared cell by cell and component by component with the "
        "model's cellStep (input: the state before the step and the explicit part taken from the real update_E of the "
        "same arrays with the polarisation arrays removed), E/P_curr/P_prev at 1e-9; the polarisation history of "
        "sampled cells is compared with the model's pTraj; the real stability measure and the warnings of place_objects "
        "are compared with the model's measure/warns; a homogeneous box started in the grid-Nyquist mode is compared "
        "with the model's nyqStep (modes (pi,pi,pi), (pi,pi,0), (pi,0,0): curl eigenvalue 4 cf^2 sigma, sigma = 1, 2/3, 1/3); root "
        "moduli of the model's per-mode characteristic polynomial for random DAMPED single-pole media with measure <= 1 (the "
        "unproved part of sufficiency). Independent oracles on the real code: zero-coefficient cells update exactly like the "
        "non-dispersive twin; P_curr' = c1 P + c2 P_prev + c3 E (+ c4 E'); a run whose poles all have zero strength "
        "equals the plain run; media near the coupled stability bound either draw a warning or keep the field energy "
        "within 10x over 10^4 steps (random initial E). Multi-material scenes (two Spheres sharing one materials dict in shuffled / non-ascending order, "
        "and, on two of three scenes, a dispersive static film half-overlapped by a discrete Device placed last — purely dielectric "
        "(its cells must hold zero pole coefficients after apply_params) or with a dispersive material): eps_inf and pole coefficients found in EVERY cell of the simulation arrays == C35-model "
        "coefficients of the material owning the cell (painter rule), warning decision == model decision for every "
        "(eps, coefficients) pairing present in the arrays, and the closed-box energy oracle. Scenes in which an over-limit / just-under-limit Drude medium is declared ONLY in a Device's materials dict "
        "(or only as an unpainted entry of a Sphere's dict): emitted warning == model warns over all declared materials, energy oracle "
        "on the silently accepted Device scenes. Every run starts with 3 directed scenes: a CCPR pole with complex "
        "residue present (c4 allocated) and conductive cells with eps != 1 inside and outside the dispersive region. non-trivial = scene with an inner block, >1 pole, c4, "
        "conductivity, per-axis poles or a near-bound medium.")

SIG_UNCHECKED = "coupled-yee-ade-instability-accepted-silently"
_m = None


def M():
    global _m
    if _m is None:
        import jax
        jax.config.update("jax_enable_x64", True)
        import jax.numpy as jnp
        import fdtdx
        from fdtdx import constants
        from fdtdx import materials as mats
        from fdtdx.fdtd.forward import forward
        from fdtdx.fdtd.update import update_E
        _m = dict(jax=jax, jnp=jnp, fdtdx=fdtdx, forward=forward, update_E=update_E, eta0=constants.eta0, mats=mats)
    return _m


# ----------------------------------------------------------------------------------------- scenes
def make_poles(spec, dt):
    """spec: list of dicts {kind, ...} with parameters relative to dt"""
    f = M()["fdtdx"]
    out = []
    for s in spec:
        k = s["kind"]
        if k == "lor":
            out.append(f.LorentzPole(resonance_frequency=s["w"] / dt, damping=s["g"] / dt, delta_epsilon=s["de"]))
        elif k == "dru":
            out.append(f.DrudePole(plasma_frequency=s["wp"] / dt, damping=s["g"] / dt))
        elif k == "lor3":
            out.append(f.LorentzPole(resonance_frequency=tuple(w / dt for w in s["w"]), damping=tuple(g / dt for g in s["g"]),
                                     delta_epsilon=tuple(s["de"])))
        elif k == "dru3":
            out.append(f.DrudePole(plasma_frequency=tuple(w / dt for w in s["wp"]), damping=tuple(g / dt for g in s["g"])))
        elif k == "ccpr":
            out.append(f.CCPRPole(pole=complex(s["qre"], s["qim"]) / dt, residue=complex(s["rre"], s["rim"]) / dt))
        else:
            raise ValueError(k)
    return tuple(out)


def make_material(ms, dt):
    f = M()["fdtdx"]
    kw = dict(permittivity=ms["eps"])
    if ms.get("sigma"):
        kw["electric_conductivity"] = ms["sigma"]
    if ms.get("poles"):
        kw["dispersion"] = f.DispersionModel(poles=make_poles(ms["poles"], dt))
    return f.Material(**kw)


def build(scene):
    """returns objs, arrays, cfg, warnings-list, materials dict"""
    m = M()
    f, jnp, jax = m["fdtdx"], m["jnp"], m["jax"]
    res = 50e-9
    cfg = f.SimulationConfig(time=100e-15, grid=f.UniformGrid(spacing=res), backend="cpu", dtype=jnp.float64,
                             courant_factor=scene["cf"], gradient_config=None)
    dt = cfg.time_step_duration
    n = scene["shape"]
    bg = make_material(scene["bg"], dt)
    vol = f.SimulationVolume(partial_grid_shape=tuple(n), material=bg, name="vol")
    objs, cons = [vol], []
    mats = {"vol": bg}
    if scene.get("block"):
        b = scene["block"]
        bm = make_material(b["mat"], dt)
        blk = f.UniformMaterialObject(partial_grid_shape=tuple(b["size"]), material=bm, name="blk")
        cons.append(blk.set_grid_coordinates(axes=(0, 1, 2), sides=("-", "-", "-"), coordinates=tuple(b["at"])))
        objs.append(blk)
        mats["blk"] = bm
    bd, bcons = f.boundary_objects_from_config(f.BoundaryConfig.from_uniform_bound(boundary_type="periodic"), vol)
    objs += list(bd.values()) if isinstance(bd, dict) else list(bd)
    cons += list(bcons)
    with warnings.catch_warnings(record=True) as w:
        warnings.simplefilter("always")
        oc, arrays, params, cfg, _ = f.place_objects(object_list=objs, config=cfg, constraints=cons, key=jax.random.PRNGKey(0))
    return oc, arrays, cfg, [str(x.message) for x in w], mats


def coupled_warned(wl):
    return any("coupled field/polarization" in x for x in wl)


_step_cache = {}


def stepper(oc, cfg):
    m = M()
    jax = m["jax"]
    key = jax.random.PRNGKey(0)
    fwd = jax.jit(lambda t, a: m["forward"]((t, a), cfg, oc, key, False, False, False)[1])
    upE = jax.jit(lambda t, a: m["update_E"](t, a, oc, cfg, False).fields.E)
    return fwd, upE


def bc(a, shape):
    return np.broadcast_to(np.asarray(a), shape)


def acceptance_vs_model(ctx, scene, cfg, wl, mats):
    """real stability measure and emitted warnings vs the model's measure / warns"""
    from .common import f2h, h2f
    m = M()
    dt = cfg.time_step_duration
    for name, mat in mats.items():
        if mat.dispersion is None:
            continue
        real, _ = m["mats"]._coupled_dispersive_stability_measure(mat, dt, scene["cf"])
        cc = m["fdtdx"].compute_pole_coefficients_tensor(mat.dispersion.poles, dt)
        per_axis = []
        for ax in range(3):
            parts = [f2h(scene["cf"]), f2h(mat.permittivity[4 * ax]), f2h(mat.permeability[4 * ax])]
            for i in range(len(mat.dispersion.poles)):
                parts += [f2h(cc[0][i, ax]), f2h(cc[1][i, ax]), f2h(cc[2][i, 4 * ax]), f2h(cc[3][i, 4 * ax]), f2h(0.0), f2h(0.0)]
            per_axis.append(" ".join(parts))
        reps = ctx.driver.ask_many(["measure " + p for p in per_axis] +
                                   ["warns " + " ".join(p.split(" ")[:3] + [f2h(0.01)] + p.split(" ")[3:]) for p in per_axis])
        mm = max(h2f(r) for r in reps[:3])
        ctx.expect_close("measure", {"scene": scene, "material": name}, [real], [mm], tol=1e-9)
        mw = any(r == "1" for r in reps[3:])
        rw = any(("'" + name + "'") in x and "coupled field/polarization" in x for x in wl)
        if abs(mm - 0.99) > 1e-9:
            ctx.expect_equal("warns", {"scene": scene, "material": name, "measure": mm}, rw, mw)


# ------------------------------------------------------------------------------ K: per-cell steps
def check_scene(ctx, scene):
    """steps the real `forward`, compares every cell with the model, evaluates the oracles.
    Returns a property-violation detail or None."""
    from .common import f2h, h2fs
    m = M()
    jnp = m["jnp"]
    oc, arrays, cfg, wl, mats = build(scene)
    viol = None
    rng = np.random.default_rng(scene["seed"])
    shp = arrays.fields.E.shape
    arrays = arrays.aset("fields->E", jnp.asarray(rng.standard_normal(shp)))
    arrays = arrays.aset("fields->H", jnp.asarray(rng.standard_normal(shp)))
    fwd, upE = stepper(oc, cfg)
    c = cfg.courant_number
    has_disp = arrays.fields.dispersive_P_curr is not None
    hist_E, hist_P = [np.asarray(arrays.fields.E)], []
    T = scene["steps"]
    for t in range(T):
        tt = jnp.asarray(t, dtype=jnp.int32)
        new = fwd(tt, arrays)
        E0, E1 = np.asarray(arrays.fields.E), np.asarray(new.fields.E)
        inv_eps = bc(arrays.inv_permittivities, shp)
        if arrays.electric_conductivity is not None:
            l = c * bc(arrays.electric_conductivity, shp) * m["eta0"] * inv_eps / 2
        else:
            l = np.zeros(shp)
        if has_disp:
            nd_arrays = arrays.aset("fields->dispersive_P_curr", None).aset("fields->dispersive_P_prev", None)
            End = np.asarray(upE(tt, nd_arrays))
            X = End * (1 + l)
            P0, Pp0 = np.asarray(arrays.fields.dispersive_P_curr), np.asarray(arrays.fields.dispersive_P_prev)
            P1, Pp1 = np.asarray(new.fields.dispersive_P_curr), np.asarray(new.fields.dispersive_P_prev)
            np_ = P0.shape[0]
            full = (np_,) + shp
            c1, c2, c3 = (bc(a, full) for a in (arrays.dispersive_c1, arrays.dispersive_c2, arrays.dispersive_c3))
            hasc4 = arrays.dispersive_c4 is not None
            c4 = bc(arrays.dispersive_c4, full) if hasc4 else np.zeros(full)
            # ---------------- model, every cell and component
            idx = list(np.ndindex(*shp))
            lines = []
            for ix in idx:
                parts = [f2h(inv_eps[ix]), f2h(l[ix]), f2h(X[ix]), f2h(E0[ix])]
                for p in range(np_):
                    j = (p,) + ix
                    parts += [f2h(c1[j]), f2h(c2[j]), f2h(c3[j]), f2h(c4[j]), f2h(P0[j]), f2h(Pp0[j])]
                lines.append(f"cell {1 if hasc4 else 0} " + " ".join(parts))
            reps = ctx.driver.ask_many(lines)
            mE = np.zeros(shp)
            mP, mPp = np.zeros(full), np.zeros(full)
            for ix, rep in zip(idx, reps):
                v = h2fs(rep)
                mE[ix] = v[0]
                for p in range(np_):
                    mP[(p,) + ix], mPp[(p,) + ix] = v[1 + 2 * p], v[2 + 2 * p]
            case = {"scene": scene, "step": t}
            ctx.expect_close("cellStep-E", case, E1, mE, tol=1e-9, floor=max(1.0, float(np.max(np.abs(E1)))))
            ctx.expect_close("cellStep-P", case, P1, mP, tol=1e-9, floor=max(1e-3, float(np.max(np.abs(mP)))))
            ctx.expect_close("cellStep-Pprev", case, Pp1, mPp, tol=1e-9, floor=max(1e-3, float(np.max(np.abs(mPp)))))
            # ---------------- oracles on the real code
            ctx.impl_property_evals += 2
            zero = np.all((c1 == 0) & (c2 == 0) & (c3 == 0) & (c4 == 0) & (P0 == 0), axis=0)
            if zero.any():
                d = np.abs(E1 - End)[zero]
                if float(d.max()) > 1e-14 * max(1.0, float(np.max(np.abs(End)))) and not viol:
                    ix = tuple(int(v) for v in np.argwhere(zero & (np.abs(E1 - End) == d.max()))[0])
                    viol = (f"step {t}: cell {ix} has all-zero pole coefficients but its E update differs from the non-dispersive "
                            f"update by {float(d.max()):.3e}")
            rec = c1 * P0 + c2 * Pp0 + c3 * E0[None] + c4 * E1[None]
            sc = max(1e-3, float(np.max(np.abs(rec))))
            if (float(np.max(np.abs(P1 - rec))) > 1e-12 * sc or float(np.max(np.abs(Pp1 - P0))) > 0) and not viol:
                viol = (f"step {t}: stored polarisation deviates from P' = c1 P + c2 P_prev + c3 E + c4 E' by "
                        f"{float(np.max(np.abs(P1 - rec))):.3e} (P_prev' - P: {float(np.max(np.abs(Pp1 - P0))):.3e})")
            hist_P.append(P1)
        else:
            # non-dispersive scene: model ndStep on the explicit part recovered from the lossless formula is vacuous;
            # nothing to compare here (covered by the zero-strength oracle below)
            pass
        arrays = new
        hist_E.append(np.asarray(arrays.fields.E))
    # ---------------- polarisation history of sampled cells vs pTraj
    if has_disp and hist_P:
        np_ = hist_P[0].shape[0]
        full = (np_,) + shp
        c1, c2, c3 = (bc(a, full) for a in (arrays.dispersive_c1, arrays.dispersive_c2, arrays.dispersive_c3))
        c4 = bc(arrays.dispersive_c4, full) if arrays.dispersive_c4 is not None else np.zeros(full)
        cells = [tuple(int(rng.integers(0, s)) for s in full) for _ in range(12)]
        lines = ["ptraj " + " ".join(f2h(a[j]) for a in (c1, c2, c3, c4)) + " " + " ".join(f2h(h[j[1:]]) for h in hist_E)
                 for j in cells]
        reps = ctx.driver.ask_many(lines)
        for j, rep in zip(cells, reps):
            mod = h2fs(rep)
            impl = [float(h[j]) for h in hist_P]
            ctx.expect_close("pTraj", {"scene": scene, "cell": list(j)}, impl, mod, tol=1e-9, floor=max(1e-3, max(abs(x) for x in mod)))
    acceptance_vs_model(ctx, scene, cfg, wl, mats)
    return viol


# ------------------------------------------------------------------ zero-strength run == plain run
def zero_strength_fail(scene):
    """dispersive arrays allocated but every pole has zero strength: the run must equal the plain run"""
    m = M()
    jnp = m["jnp"]
    plain = dict(scene, bg=dict(scene["bg"], poles=None), block=None if not scene.get("block") else
                 dict(scene["block"], mat=dict(scene["block"]["mat"], poles=None)))
    outs = []
    for sc in (scene, plain):
        oc, arrays, cfg, wl, mats = build(sc)
        rng = np.random.default_rng(sc["seed"])
        shp = arrays.fields.E.shape
        arrays = arrays.aset("fields->E", jnp.asarray(rng.standard_normal(shp)))
        arrays = arrays.aset("fields->H", jnp.asarray(rng.standard_normal(shp)))
        fwd, _ = stepper(oc, cfg)
        for t in range(sc["steps"]):
            arrays = fwd(jnp.asarray(t, dtype=jnp.int32), arrays)
        outs.append((np.asarray(arrays.fields.E), np.asarray(arrays.fields.H), arrays.fields.dispersive_P_curr))
    if outs[0][2] is None:
        return "zero-strength poles did not allocate polarisation arrays (oracle vacuous)"
    d = max(float(np.max(np.abs(outs[0][0] - outs[1][0]))), float(np.max(np.abs(outs[0][1] - outs[1][1]))))
    if d > 1e-13 * max(1.0, float(np.max(np.abs(outs[1][0])))):
        return f"run with zero-strength poles differs from the plain run by {d:.3e} after {scene['steps']} steps"
    if float(np.max(np.abs(np.asarray(outs[0][2])))) != 0.0:
        return "polarisation of zero-strength poles is not identically zero"
    return None


# ------------------------------------------------------------------------------ Nyquist mode vs model
def nyquist_check(ctx, sc):
    from .common import f2h, h2fs
    m = M()
    jnp = m["jnp"]
    scene = {"cf": sc["cf"], "shape": [4, 4, 4], "bg": {"eps": sc["eps"], "poles": [sc["pole"]]}, "seed": 0, "steps": sc["steps"]}
    oc, arrays, cfg, wl, mats = build(scene)
    n = 4
    ii, jj, kk = np.meshgrid(range(n), range(n), range(n), indexing="ij")
    # Fourier mode k = (pi,pi,pi)/D (sigma = 1), (pi,pi,0)/D (sigma = 2/3) or (pi,0,0)/D (sigma = 1/3); E transverse
    mode = sc.get("mode", "xyz")
    pat, ev, sigma = {"xyz": ((-1.0) ** (ii + jj + kk), np.array([1.0, -1.0, 0.0]) / math.sqrt(2), 1.0),
                      "xy": ((-1.0) ** (ii + jj), np.array([0.0, 0.0, 1.0]), 2.0 / 3.0),
                      "x": ((-1.0) ** ii, np.array([0.0, 1.0, 0.0]), 1.0 / 3.0)}[mode]
    arrays = arrays.aset("fields->E", jnp.asarray(ev[:, None, None, None] * pat[None]))
    fwd, _ = stepper(oc, cfg)
    c1 = float(np.asarray(arrays.dispersive_c1).ravel()[0])
    c2 = float(np.asarray(arrays.dispersive_c2).ravel()[0])
    c3 = float(np.asarray(arrays.dispersive_c3).ravel()[0])
    inv_eps = float(np.asarray(arrays.inv_permittivities).ravel()[0])
    kappa = 2.0 * sc["cf"] * math.sqrt(sigma)      # per-mode curl eigenvalue 4 cf^2 sigma (C36Suff.lean)
    traj = []
    hv = None
    for t in range(sc["steps"]):
        arrays = fwd(jnp.asarray(t, dtype=jnp.int32), arrays)
        E, H, P = (np.asarray(a) for a in (arrays.fields.E, arrays.fields.H, arrays.fields.dispersive_P_curr))
        e = float(np.tensordot(ev, (E * pat[None]).mean(axis=(1, 2, 3)), 1))
        hvec = (H * pat[None]).mean(axis=(1, 2, 3))
        if hv is None:
            hv = hvec / np.linalg.norm(hvec)
        # the mode must stay in the 2-dimensional span (pattern x ev, pattern x hv)
        resid = max(float(np.max(np.abs(E - e * ev[:, None, None, None] * pat[None]))),
                    float(np.max(np.abs(H - float(hvec @ hv) * hv[:, None, None, None] * pat[None]))))
        traj.append((e, float(hvec @ hv), float(np.tensordot(ev, (P[0] * pat[None]).mean(axis=(1, 2, 3)), 1)), resid))
    # model: sign of h fixed by the first real step (the model is invariant under h -> -h, kappa -> -kappa)
    lines = [f"nyq {k + 1} " + " ".join(f2h(x) for x in (kappa, inv_eps, 1.0, c1, c2, c3, 1.0, 0.0, 0.0, 0.0)) for k in range(sc["steps"])]
    reps = ctx.driver.ask_many(lines)
    sgn = None
    for k, rep in enumerate(reps):
        v = h2fs(rep)
        if sgn is None:
            sgn = 1.0 if v[1] * traj[k][1] >= 0 else -1.0
        impl = [traj[k][0], traj[k][1], traj[k][2]]
        mod = [v[0], sgn * v[1], v[2]]
        sc_ = max(1.0, max(abs(x) for x in mod))
        ctx.expect_close("nyqStep", {"nyq": sc, "step": k}, impl, mod, tol=1e-9, floor=sc_)
        if traj[k][3] > 1e-9 * sc_:
            ctx.mismatch("nyq-span", {"nyq": sc, "step": k}, {"residual": traj[k][3]})


# ------------------------------------------------------------------------ property: bounded energy
def growth_run(oc, arrays, cfg, seed, steps=10000, limit=1e3):
    """max field energy / initial field energy over `steps` steps of the real `forward` (early exit beyond `limit`)"""
    m = M()
    jnp, jax = m["jnp"], m["jax"]
    rng = np.random.default_rng(seed)
    arrays = arrays.aset("fields->E", jnp.asarray(rng.standard_normal(arrays.fields.E.shape)))
    key = jax.random.PRNGKey(0)

    def energy(a):
        return jnp.sum(a.fields.E ** 2 / a.inv_permittivities) + jnp.sum(a.fields.H ** 2)

    def body(carry):
        st, e0, emax = carry
        st = m["forward"](st, cfg, oc, key, False, False, False)
        return st, e0, jnp.maximum(emax, energy(st[1]))

    def cond(carry):
        st, e0, emax = carry
        return (st[0] < steps) & (emax < limit * e0) & jnp.isfinite(emax)

    e0 = energy(arrays)
    st, e0, emax = jax.jit(lambda a: jax.lax.while_loop(cond, body, ((jnp.asarray(0, dtype=jnp.int32), a), e0, e0)))(arrays)
    g = float(emax / e0)
    return (g if math.isfinite(g) else float("inf")), int(st[0])


def growth(scene, steps=10000, limit=1e3):
    """growth of a `build` scene; placements that warn are not stepped (the property says nothing about them)"""
    oc, arrays, cfg, wl, mats = build(scene)
    if wl:
        return 0.0, 0, wl
    g, n = growth_run(oc, arrays, cfg, scene["seed"], steps, limit)
    return g, n, wl


def medium_for_measure(rng, target, cf, eps, kind):
    """a passive Lorentz/Drude medium whose coupled measure is `target` at this courant factor"""
    nu2 = cf * cf / eps
    s = (target - nu2) * eps          # required sum of k/(4 - w^2)
    if s <= 0:
        return None
    g = rng.choice([0.0, rng.uniform(0.0, 0.3), rng.uniform(0.3, 2.0)])
    if kind == "dru":
        k = 4 * s
        if k <= 0:
            return None
        return [{"kind": "dru", "wp": math.sqrt(k), "g": g}]
    if kind == "lor":
        w = rng.uniform(0.05, 1.9)
        k = s * (4 - w * w)
        return [{"kind": "lor", "w": w, "g": g, "de": k / (w * w)}]
    # two poles sharing the budget
    a = rng.uniform(0.2, 0.8)
    w = rng.uniform(0.05, 1.5)
    return [{"kind": "dru", "wp": math.sqrt(4 * s * a), "g": g},
            {"kind": "lor", "w": w, "g": rng.uniform(0, 0.5), "de": s * (1 - a) * (4 - w * w) / (w * w)}]


def bounded_fail(scene, steps=10000):
    """property (second clause): accepted without error or warning -> field energy within 10x for `steps` steps"""
    try:
        g, n, wl = growth(scene, steps)
    except (ValueError, NotImplementedError):
        return None, "rejected"
    if wl:
        return None, "warned"
    if g > 10.0:
        return (f"medium accepted without error or warning, field energy grew {g:.3g}x within {n} steps "
                f"(courant_factor {scene['cf']}, background {scene['bg']}, block {scene.get('block')})"), "silent"
    return None, "silent"


# ------------------------------------------------------------- multi-material objects and devices
MM_LIB = {          # parameters relative to dt; every medium is far inside its own bound, the strong ones are far
    "au":   {"eps": 9.0, "poles": [{"kind": "dru", "wp": math.sqrt(8.0), "g": 0.05}]},          # outside it on eps ~ 2
    "ag":   {"eps": 6.0, "poles": [{"kind": "dru", "wp": 2.0, "g": 0.02}, {"kind": "lor", "w": 0.8, "g": 0.1, "de": 2.0}]},
    "si":   {"eps": 12.0, "poles": [{"kind": "lor", "w": 1.2, "g": 0.05, "de": 6.0}]},
    "sio2": {"eps": 2.25, "poles": None},
    "air":  {"eps": 1.0, "poles": None},
    "poly": {"eps": 1.6, "poles": [{"kind": "lor", "w": 0.5, "g": 0.1, "de": 0.3}]},
}


def gen_multi(rng, i):
    """two spheres sharing one materials dict (+ a discrete Device on odd i); dict order shuffled, and on i = 0 exactly
    the order 'dispersive high-eps material first' that differs from the ascending-permittivity table order"""
    names = [["au", "sio2"], ["sio2", "si", "air"], ["ag", "air", "au"], ["poly", "au", "sio2"], ["si", "air"]][i % 5]
    order = list(names) if i == 0 else rng.shuffle(names)
    if i != 0 and order == sorted(order, key=lambda n: MM_LIB[n]["eps"]):
        order = order[::-1]
    picks = [order[0], order[-1]]
    sc = {"multi": True, "cf": rng.choice([0.99, rng.uniform(0.6, 0.95)]), "shape": [6, 6, 6], "seed": rng.randint(0, 999),
          "order": order, "spheres": [{"pick": picks[0], "at": [0, 0, 0]}, {"pick": picks[1], "at": [3, 3, 3]}]}
    if i % 3 != 0:
        # a dispersive static film (placed after the spheres) and a discrete Device placed last that overlaps it half-way:
        # i % 3 == 1 -> purely dielectric device (its cells must carry ZERO pole coefficients after apply_params),
        # i % 3 == 2 -> device with a dispersive material; dict order not ascending in permittivity
        sc["film"] = {"mat": rng.choice(["ag", "au"]), "at": [0, 0, 3], "size": [6, 6, 2]}
        dev_order = ["sio2", "air"] if i % 3 == 1 else rng.choice([["au", "sio2"], ["si", "air"], ["ag", "poly"]])
        bits = [rng.randint(0, 1) for _ in range(8)]
        bits[0], bits[7] = 0, 1          # both materials present, in and out of the film
        sc["device"] = {"order": dev_order, "at": [2, 2, 2], "size": [2, 2, 2], "bits": bits}
    return sc


def build_multi(sc):
    """place the scene; returns oc, arrays, cfg, warnings, owner (name per cell, object array), eps per name"""
    m = M()
    f, jnp, jax = m["fdtdx"], m["jnp"], m["jax"]
    res = 50e-9
    cfg = f.SimulationConfig(time=100e-15, grid=f.UniformGrid(spacing=res), backend="cpu", dtype=jnp.float64,
                             courant_factor=sc["cf"], gradient_config=None)
    dt = cfg.time_step_duration
    mats = {n: make_material(MM_LIB[n], dt) for n in MM_LIB}
    vol = f.SimulationVolume(partial_grid_shape=tuple(sc["shape"]), name="vol")
    objs, cons = [vol], []
    shared = {n: mats[n] for n in sc["order"]}
    for k, sp in enumerate(sc["spheres"]):
        o = f.Sphere(name=f"s{k}", materials=shared, material_name=sp["pick"], radius=1.5 * res)
        cons.append(o.set_grid_coordinates(axes=(0, 1, 2), sides=("-", "-", "-"), coordinates=tuple(sp["at"])))
        objs.append(o)
    if sc.get("film"):
        fm = sc["film"]
        film = f.UniformMaterialObject(partial_grid_shape=tuple(fm["size"]), material=mats[fm["mat"]], name="film")
        cons.append(film.set_grid_coordinates(axes=(0, 1, 2), sides=("-", "-", "-"), coordinates=tuple(fm["at"])))
        objs.append(film)
    if sc.get("device"):
        d = sc["device"]
        dev = f.Device(name="dev", partial_grid_shape=tuple(d["size"]), partial_voxel_grid_shape=(1, 1, 1),
                       materials={n: mats[n] for n in d["order"]}, param_transforms=[f.ClosestIndex()])
        cons.append(dev.set_grid_coordinates(axes=(0, 1, 2), sides=("-", "-", "-"), coordinates=tuple(d["at"])))
        objs.append(dev)
    bd, bcons = f.boundary_objects_from_config(f.BoundaryConfig.from_uniform_bound(boundary_type="periodic"), vol)
    objs += list(bd.values())
    cons += list(bcons)
    key = jax.random.PRNGKey(0)
    with warnings.catch_warnings(record=True) as w:
        warnings.simplefilter("always")
        oc, arrays, params, cfg, _ = f.place_objects(object_list=objs, config=cfg, constraints=cons, key=key)
        if sc.get("device"):
            bits = np.asarray(sc["device"]["bits"], dtype=np.float64).reshape(sc["device"]["size"])
            params = {name: (jnp.asarray(bits) if not isinstance(p, dict) else {k2: jnp.asarray(bits) for k2 in p})
                      for name, p in params.items()}
            arrays, oc, _ = f.apply_params(arrays, oc, params, key)
    # owner of every cell, by the documented painter rule (later objects overwrite inside their mask)
    owner = np.full(tuple(sc["shape"]), "bg", dtype=object)
    for o in oc.objects:
        if o.name.startswith("s") and o.name[1:].isdigit():
            mask = np.asarray(o.get_voxel_mask_for_shape()).astype(bool)
            sl = tuple(slice(a, b) for a, b in o.grid_slice_tuple)
            sub = owner[sl]
            sub[mask] = sc["spheres"][int(o.name[1:])]["pick"]
            owner[sl] = sub
        if o.name == "film":
            sl = tuple(slice(a, b) for a, b in o.grid_slice_tuple)
            owner[sl] = sc["film"]["mat"]
        if o.name == "dev":
            d = sc["device"]
            asc = sorted(d["order"], key=lambda n: MM_LIB[n]["eps"])      # index 0/1 = ascending permittivity
            sl = tuple(slice(a, b) for a, b in o.grid_slice_tuple)
            bits = np.asarray(d["bits"]).reshape(d["size"])
            sub = owner[sl]
            for ix in np.ndindex(*bits.shape):
                sub[ix] = asc[int(bits[ix])]
            owner[sl] = sub
    return oc, arrays, cfg, [str(x.message) for x in w], owner, dt


def model_coefs_for(ctx, spec, dt):
    """coefficients (c1,c2,c3,c4) of every pole of a material spec from the C35 model (isotropic poles)"""
    from .common import Driver, f2h, h2fs
    lines = []
    for p in spec["poles"] or []:
        if p["kind"] == "dru":
            lines.append("dru " + " ".join(f2h(x) for x in (p["wp"] / dt, p["g"] / dt, dt)))
        else:
            lines.append("lor " + " ".join(f2h(x) for x in (p["w"] / dt, p["g"] / dt, p["de"], dt)))
    if not lines:
        return []
    d35 = Driver("C35")
    reps = d35.ask_many(lines)
    ctx.driver.n += len(lines)
    return [h2fs(r) for r in reps]


def multi_check(ctx, sc, run_energy=True):
    """(a) coefficients and eps_inf placed in every cell == model coefficients of the material that owns the cell,
    warning decision == model decision for every (eps, coefficients) pairing actually present in the arrays;
    (b) accepted silently -> field energy within 10x for 1e4 steps.  Returns a property-violation detail or None."""
    from .common import f2h
    oc, arrays, cfg, wl, owner, dt = build_multi(sc)
    if arrays.dispersive_c1 is None:
        ctx.mismatch("multi-no-dispersive-arrays", sc, {})
        return None
    c = [np.asarray(a) for a in (arrays.dispersive_c1, arrays.dispersive_c2, arrays.dispersive_c3)]
    c.append(np.asarray(arrays.dispersive_c4) if arrays.dispersive_c4 is not None else np.zeros_like(c[2]))
    npole = c[0].shape[0]
    inv_eps = np.asarray(arrays.inv_permittivities)
    names = sorted(set(owner.ravel()))
    table = {"bg": ({"eps": 1.0, "poles": None}, [])}
    for n in names:
        if n != "bg":
            table[n] = (MM_LIB[n], model_coefs_for(ctx, MM_LIB[n], dt))
    viol = None
    worst = 0.0
    for ix in np.ndindex(*owner.shape):
        spec, mc = table[owner[ix]]
        exp = np.zeros((npole, 4))
        for p, row in enumerate(mc):
            exp[p] = row
        got = np.array([[c[k][(p, 0) + ix] for k in range(4)] for p in range(npole)])
        err = float(np.max(np.abs(got - exp) / np.maximum(np.abs(exp), 1.0)))
        eerr = abs(float(inv_eps[(0,) + ix]) * spec["eps"] - 1.0)
        if max(err, eerr) > worst:
            worst = max(err, eerr)
            if worst > 1e-9 and viol is None:
                viol = (f"cell {tuple(int(v) for v in ix)} belongs to material '{owner[ix]}' (eps_inf {spec['eps']}, "
                        f"{len(mc)} poles) but the simulation arrays hold coefficients {got.tolist()} and 1/eps {float(inv_eps[(0,) + ix]):.6g}; "
                        f"expected {exp.tolist()} (materials dict order {sc['order']})")
    if worst > 1e-9:
        ctx.mismatch("multi-cell-coefficients", sc, {"worst": worst})
    # decision for every (eps, coefficients) pairing that is actually present
    classes = {}
    for ix in np.ndindex(*owner.shape):
        key = (round(1.0 / float(inv_eps[(0,) + ix]), 9),) + tuple(float(c[k][(p, 0) + ix]) for p in range(npole) for k in range(4))
        classes.setdefault(key, ix)
    lines = []
    for key in classes:
        parts = [f2h(sc["cf"]), f2h(key[0]), f2h(1.0), f2h(0.01)]
        for p in range(npole):
            parts += [f2h(x) for x in key[1 + 4 * p: 5 + 4 * p]] + [f2h(0.0), f2h(0.0)]
        lines.append("warns " + " ".join(parts))
    reps = ctx.driver.ask_many(lines)
    model_warns = any(r == "1" for r in reps)
    real_warns = coupled_warned(wl)
    ctx.expect_equal("multi-warn-decision", {"scene": sc, "classes": len(classes)}, real_warns, model_warns)
    if run_energy and not wl:
        ctx.impl_property_evals += 1
        g, n = growth_run(oc, arrays, cfg, sc["seed"])
        if g > 10.0 and viol is None:
            viol = (f"multi-material scene accepted without error or warning, field energy grew {g:.3g}x within {n} steps "
                    f"(courant_factor {sc['cf']}, materials dict order {sc['order']}, spheres {sc['spheres']}, film {sc.get('film')}, "
                    f"device {sc.get('device')})")
        elif g > 10.0:
            viol += f"; accepted without error or warning, field energy grew {g:.3g}x within {n} steps"
    return viol


# ------------------------------------------- materials declared only in a Device / unpainted dict entry
def gen_declared(rng, i):
    """a Drude medium over (or just under) the coupled limit that is declared ONLY in a Device's materials dict
    (where = 'device'), or only as an unpainted entry of a Sphere's dict (where = 'unpainted')"""
    over = i % 2 == 0
    cf = 0.99 if i < 2 else rng.uniform(0.6, 0.99)
    eps = 1.0 if i < 2 else rng.uniform(1.0, 2.0)
    target = rng.uniform(1.1, 1.4) if over else rng.uniform(0.9, 0.985)
    poles = medium_for_measure(rng, target, cf, eps, "dru") or [{"kind": "dru", "wp": 1.0, "g": 0.0}]
    if i == 0:
        poles = [{"kind": "dru", "wp": 1.0, "g": 0.0}]          # omega_p dt = 1, eps_inf = 1, courant 0.99: measure 1.23
    return {"declared": True, "cf": cf, "shape": [4, 4, 4], "seed": rng.randint(0, 999), "where": ["device", "device", "unpainted", "device"][i % 4],
            "x": {"eps": eps, "poles": poles}, "x_first": bool(rng.randint(0, 1)), "bits": [1] * 8 if i < 2 else [rng.randint(0, 1) for _ in range(8)]}


def declared_check(ctx, sc):
    """warning decision of place_objects == model `warns` over ALL materials the scene declares (also those that live only
    in a Device's dict or are not painted); a silently accepted Device scene must stay bounded (1e4 steps)."""
    from .common import f2h
    m = M()
    f, jnp, jax = m["fdtdx"], m["jnp"], m["jax"]
    res = 50e-9
    cfg = f.SimulationConfig(time=100e-15, grid=f.UniformGrid(spacing=res), backend="cpu", dtype=jnp.float64,
                             courant_factor=sc["cf"], gradient_config=None)
    dt = cfg.time_step_duration
    x = make_material(sc["x"], dt)
    air = make_material({"eps": 1.0, "poles": None}, dt)
    mats = {"x": x, "air": air} if sc["x_first"] else {"air": air, "x": x}
    vol = f.SimulationVolume(partial_grid_shape=tuple(sc["shape"]), name="vol")
    objs, cons = [vol], []
    if sc["where"] == "device":
        o = f.Device(name="dev", partial_grid_shape=(2, 2, 2), partial_voxel_grid_shape=(1, 1, 1), materials=mats,
                     param_transforms=[f.ClosestIndex()])
    else:
        # keep one dispersive painted medium so that the polarisation arrays exist; x itself is never painted
        objs.append(f.UniformMaterialObject(partial_grid_shape=(1, 1, 1), name="seedpole",
                                            material=make_material({"eps": 4.0, "poles": [{"kind": "lor", "w": 0.5, "g": 0.1, "de": 0.2}]}, dt)))
        cons.append(objs[-1].set_grid_coordinates(axes=(0, 1, 2), sides=("-", "-", "-"), coordinates=(0, 0, 0)))
        o = f.Sphere(name="sph", materials=mats, material_name="air", radius=1.0 * res)
    cons.append(o.set_grid_coordinates(axes=(0, 1, 2), sides=("-", "-", "-"), coordinates=(1, 1, 1)))
    objs.append(o)
    bd, bcons = f.boundary_objects_from_config(f.BoundaryConfig.from_uniform_bound(boundary_type="periodic"), vol)
    objs += list(bd.values())
    cons += list(bcons)
    key = jax.random.PRNGKey(0)
    with warnings.catch_warnings(record=True) as w:
        warnings.simplefilter("always")
        oc, arrays, params, cfg, _ = f.place_objects(object_list=objs, config=cfg, constraints=cons, key=key)
        if sc["where"] == "device":
            bits = jnp.asarray(np.asarray(sc["bits"], dtype=np.float64).reshape(2, 2, 2))
            params = {name: (bits if not isinstance(p, dict) else {k2: bits for k2 in p}) for name, p in params.items()}
            arrays, oc, _ = f.apply_params(arrays, oc, params, key)
    wl = [str(v.message) for v in w]
    # model decision for the declared medium x (its own eps and coefficients)
    mc = model_coefs_for(ctx, sc["x"], dt)
    parts = [f2h(sc["cf"]), f2h(sc["x"]["eps"]), f2h(1.0), f2h(0.01)]
    for row in mc:
        parts += [f2h(v) for v in row] + [f2h(0.0), f2h(0.0)]
    model_warns = ctx.driver.ask_many(["warns " + " ".join(parts)])[0] == "1"
    real_warns = coupled_warned(wl)
    ctx.expect_equal("declared-warn-decision", {"scene": sc}, real_warns, model_warns)
    viol = None
    if sc["where"] == "device" and not wl:
        ctx.impl_property_evals += 1
        g, n = growth_run(oc, arrays, cfg, sc["seed"])
        if g > 10.0:
            viol = (f"Device medium accepted without error or warning, field energy grew {g:.3g}x within {n} steps "
                    f"(courant_factor {sc['cf']}, device material {sc['x']}, declared only in the Device's materials dict)")
    return viol


# ------------------------------------------------------------------------------------------- gen
def gen_pole(rng, kind):
    g = rng.choice([0.0, rng.uniform(0.001, 0.2), rng.uniform(0.2, 3.0)])
    if kind == "lor":
        return {"kind": "lor", "w": rng.uniform(0.05, 1.5), "g": g, "de": rng.uniform(0.05, 0.6)}
    if kind == "dru":
        return {"kind": "dru", "wp": rng.uniform(0.05, 0.6), "g": g}
    if kind == "lor3":
        de = [rng.uniform(0.05, 0.5) for _ in range(3)]
        if rng.chance(0.5):
            de[rng.randint(0, 2)] = 0.0
        return {"kind": "lor3", "w": [rng.uniform(0.05, 1.5) for _ in range(3)], "g": [rng.uniform(0, 0.5) for _ in range(3)], "de": de}
    if kind == "dru3":
        wp = [rng.uniform(0.05, 0.5) for _ in range(3)]
        if rng.chance(0.5):
            wp[rng.randint(0, 2)] = 0.0
        return {"kind": "dru3", "wp": wp, "g": [rng.uniform(0, 0.5) for _ in range(3)]}
    if kind == "ccpr":
        return {"kind": "ccpr", "qre": -rng.uniform(0.01, 0.3), "qim": -rng.uniform(0.1, 1.2),
                "rre": rng.uniform(-0.05, 0.08), "rim": rng.uniform(-0.3, 0.3)}
    raise ValueError(kind)


def gen_material(rng, tier, dispersive):
    ms = {"eps": rng.choice([1.0, rng.uniform(1.0, 4.0)]), "poles": None}
    if rng.chance(0.3):
        ms["sigma"] = rng.uniform(1e3, 1e5)
    if dispersive:
        kinds = {"iso": ["lor", "dru"], "axes": ["lor3", "dru3", "lor"], "c4": ["ccpr", "lor", "dru"]}[tier]
        n = rng.choice([1, 1, 2, 3])
        ps = [gen_pole(rng, rng.choice(kinds)) for _ in range(n)]
        if tier == "axes":
            ps[0] = gen_pole(rng, rng.choice(["lor3", "dru3"]))
        if tier == "c4":
            ps[0] = gen_pole(rng, "ccpr")
        ms["poles"] = ps
    return ms


def gen_scene(rng, i):
    tier = ["iso", "axes", "c4"][i % 3]
    shape = rng.choice([[3, 3, 3], [4, 4, 4], [3, 4, 5], [4, 3, 3]])
    layout = ["block-zero", "both", "bg", "block"][i % 4]
    sc = {"cf": rng.choice([0.99, rng.uniform(0.3, 0.95)]), "shape": shape, "seed": rng.randint(0, 10 ** 6),
          "steps": rng.randint(5, 7), "tier": tier, "layout": layout}
    sc["bg"] = gen_material(rng, tier, layout in ("bg", "both", "block-zero"))
    if layout != "bg":
        size = [rng.randint(1, s - 1) for s in shape]
        at = [rng.randint(0, s - z) for s, z in zip(shape, size)]
        sc["block"] = {"size": size, "at": at, "mat": gen_material(rng, tier, layout in ("block", "both"))}
    return sc


def directed_scenes(rng):
    """always part of the run: a CCPR pole with complex residue somewhere in the scene (c4 allocated -> implicit divide in
    EVERY cell), conductive cells with eps != 1 both inside and outside the dispersive region; also a per-axis tier"""
    out = []
    for k in range(3):
        ccpr = {"eps": rng.uniform(1.5, 4.0), "sigma": rng.uniform(2e4, 2e5),
                "poles": [gen_pole(rng, "ccpr")] + ([gen_pole(rng, "lor")] if k == 1 else [])}
        ccpr["poles"][0]["rre"] = rng.choice([-1, 1]) * rng.uniform(0.02, 0.08)       # Re(residue) != 0 -> c4 != 0
        plain = {"eps": rng.uniform(1.5, 4.0), "sigma": rng.uniform(2e4, 2e5), "poles": None}
        if k == 2:      # per-axis poles + conductivity, no c4: explicit branch with the loss divide
            ccpr["poles"] = [gen_pole(rng, "dru3"), gen_pole(rng, "lor")]
        shape = [[3, 3, 3], [3, 4, 3], [4, 3, 3]][k]
        sc = {"cf": rng.uniform(0.5, 0.99), "shape": shape, "seed": rng.randint(0, 10 ** 6), "steps": 4,
              "tier": "c4" if k < 2 else "axes", "layout": "directed-lossy",
              "bg": ccpr if k != 1 else plain,
              "block": {"size": [1, 2, 2], "at": [1, 0, 1], "mat": plain if k != 1 else ccpr}}
        out.append(sc)
    return out


def nontrivial_key(sc):
    np_ = len(sc["bg"]["poles"] or []) + len(((sc.get("block") or {}).get("mat") or {}).get("poles") or [])
    return (sc["tier"], sc["layout"], np_, bool(sc["bg"].get("sigma")), tuple(sc["shape"]))


def run(ctx):
    n = ctx.scale(6, 60)
    scenes = directed_scenes(ctx.rng) + [gen_scene(ctx.rng, i) for i in range(n)]
    if ctx.thorough:
        scenes += [s2 for _ in range(4) for s2 in directed_scenes(ctx.rng)]
    for i, sc in enumerate(scenes):
        d = check_scene(ctx, sc)
        ctx.case(sample=sc if i == 1 else None, nontrivial=nontrivial_key(sc) if (sc["layout"] != "bg" or sc["tier"] != "iso") else None,
                 op="cellStep", tier=sc["tier"], layout=sc["layout"], shape="x".join(map(str, sc["shape"])))
        if d:
            ctx.violation({"kind": "scene", "scene": sc}, d)
    # multi-material objects / devices: placed coefficients per cell, warning decision, closed-box energy
    for i in range(ctx.scale(3, 12)):
        sc = gen_multi(ctx.rng, i)
        d = multi_check(ctx, sc, run_energy=True)
        ctx.case(nontrivial=("multi", i, tuple(sc["order"])), op="multi-material", layout=("film+" + ("dielectric" if sc["device"]["order"] == ["sio2", "air"] else "dispersive") + "-device") if sc.get("device") else "spheres")
        if d:
            ctx.violation({"kind": "multi", "scene": sc}, d)
    # media declared only in a Device's dict / as an unpainted dict entry: warning decision + energy oracle
    for i in range(ctx.scale(4, 12)):
        sc = gen_declared(ctx.rng, i)
        d = declared_check(ctx, sc)
        ctx.case(nontrivial=("declared", i), op="declared-only", layout=sc["where"])
        if d:
            ctx.violation({"kind": "declared", "scene": sc}, d)
    # zero-strength poles: whole run equals the plain run
    for i in range(ctx.scale(2, 10)):
        sc = {"cf": ctx.rng.uniform(0.4, 0.99), "shape": ctx.rng.choice([[3, 3, 3], [4, 3, 5]]), "seed": ctx.rng.randint(0, 999),
              "steps": 10, "bg": {"eps": ctx.rng.uniform(1, 3), "poles": [{"kind": "lor", "w": ctx.rng.uniform(0.1, 1.5), "g": 0.1, "de": 0.0}]}}
        if i % 2:
            sc["block"] = {"size": [1, 2, 1], "at": [1, 0, 1], "mat": {"eps": 2.0, "poles": [{"kind": "dru", "wp": 0.0, "g": 0.2}]}}
        ctx.case(nontrivial=("zero-strength", i), op="zero-strength")
        ctx.impl_property_evals += 1
        d = zero_strength_fail(sc)
        if d:
            ctx.violation({"kind": "zero-strength", "scene": sc}, d)
    # Nyquist mode of the homogeneous medium vs nyqStep
    for i in range(ctx.scale(3, 12)):
        pole = [{"kind": "dru", "wp": ctx.rng.uniform(0.1, 1.6), "g": ctx.rng.choice([0.0, ctx.rng.uniform(0, 1)])},
                {"kind": "lor", "w": ctx.rng.uniform(0.1, 1.8), "g": ctx.rng.uniform(0, 0.5), "de": ctx.rng.uniform(0.1, 1.0)}][i % 2]
        sc = {"cf": ctx.rng.uniform(0.3, 0.99), "eps": ctx.rng.choice([1.0, ctx.rng.uniform(1, 3)]), "pole": pole, "steps": 6}
        if i == 0:      # the Lean witness C36_nyquist_witness: amplitude doubles every step
            sc = {"cf": 0.75, "eps": 1.0, "pole": {"kind": "dru", "wp": 1.5, "g": 0.0}, "steps": 6}
        sc["mode"] = ["xyz", "x", "xy"][i % 3]
        ctx.case(nontrivial=("nyquist", i, sc["mode"]), op="nyquist", mode=sc["mode"])
        nyquist_check(ctx, sc)
    # per-mode roots of damped single-pole media with measure <= 1 (the part of sufficiency that is NOT proved):
    # numpy roots of the model's characteristic polynomial, tied to the model by evaluating its charPoly at the roots
    from .common import f2h, h2f
    lines, roots_of = [], []
    for i in range(ctx.scale(150, 1500)):
        w = ctx.rng.uniform(0.0, 1.99) if i % 2 else 0.0
        g = ctx.rng.choice([ctx.rng.uniform(0.0, 0.3), ctx.rng.uniform(0.3, 6.0)])
        eps = ctx.rng.uniform(1.0, 12.0)
        nu2 = ctx.rng.uniform(0.05, 1.0) ** 2 / eps
        meas = ctx.rng.choice([ctx.rng.uniform(nu2, 1.0), ctx.rng.uniform(0.97, 1.0)])
        if meas <= nu2:
            continue
        k = (meas - nu2) * eps * (4 - w * w)
        D = 1 + g / 2
        c1, c2, c3 = (2 - w * w) / D, -(1 - g / 2) / D, k / D
        sig = ctx.rng.choice([1.0, ctx.rng.uniform(0.0, 1.0)])
        q = np.poly1d([1.0, -c1, -c2])
        zm = np.poly1d([1.0, -1.0])
        p = zm * zm * (q + np.poly1d([c3 / eps, 0.0])) + (np.poly1d([1.0, 0.0]) * q) * (4 * sig * nu2)
        r = p.roots
        ctx.impl_property_evals += 1
        ctx.case(nontrivial=("mode-roots", i), op="mode-roots")
        if float(np.max(np.abs(r))) > 1 + 1e-6:
            ctx.violation({"kind": "mode-roots", "w": w, "g": g, "eps": eps, "nu2": nu2, "k": k, "sigma": sig},
                          f"per-mode characteristic polynomial of an accepted damped medium (measure {meas:.4f}) has a root of modulus "
                          f"{float(np.max(np.abs(r))):.6f} > 1")
        z = float(np.real(r[int(np.argmin(np.abs(np.imag(r))))]))      # the most real root, evaluated in the model
        lines.append("charpoly " + " ".join(f2h(x) for x in (sig * nu2, 1.0 / eps, c1, c2, c3, z)))
        roots_of.append((p, z))
    reps = ctx.driver.ask_many(lines)
    for (p, z), rep in zip(roots_of, reps):
        ctx.expect_close("charPoly", {"z": z}, [float(np.real(p(z)))], [h2f(rep)], tol=1e-9, floor=max(1.0, abs(z)) ** 4)
    # second clause: media around the coupled bound
    targets = ctx.scale([0.93, 0.985, 1.03, 1.25, 0.995, 0.97], [0.5, 0.8, 0.93, 0.97, 0.985, 0.988, 1.005, 1.03, 1.1, 1.25, 1.6, 2.5] * 2)
    for i, tg in enumerate(targets):
        cf = ctx.rng.choice([0.99, 0.9, ctx.rng.uniform(0.3, 0.9)])
        eps = ctx.rng.choice([1.0, 1.0, ctx.rng.uniform(1.0, 3.0)])
        poles = medium_for_measure(ctx.rng, tg, cf, eps, ["dru", "lor", "two"][i % 3])
        if poles is None:
            cf = 0.5
            poles = medium_for_measure(ctx.rng, tg, cf, eps, ["dru", "lor", "two"][i % 3])
        sc = {"cf": cf, "shape": [4, 4, 4], "seed": ctx.rng.randint(0, 999), "steps": 0, "bg": {"eps": eps, "poles": poles}}
        if i % 4 == 3:          # dispersive block in vacuum instead of a homogeneous box
            sc = dict(sc, bg={"eps": 1.0, "poles": None}, block={"size": [2, 4, 2], "at": [1, 0, 1], "mat": {"eps": eps, "poles": poles}})
        if i == 1:      # per-axis Drude: only the z axis is beyond the bound (measure 0.81 + 0.81) -> must not be silent
            sc = {"cf": 0.9, "shape": [4, 4, 4], "seed": 1, "steps": 0,
                  "bg": {"eps": 1.0, "poles": [{"kind": "dru3", "wp": [0.3, 0.3, 1.8], "g": [0.0, 0.0, 0.0]}]}}
            tg = 1.62
        if i == 0:      # just below the bound: stable, but the transient gain exceeds 10 -> must not be accepted silently
            sc = {"cf": 0.99, "shape": [4, 4, 4], "seed": 0, "steps": 0, "bg": {"eps": 1.0, "poles": [{"kind": "dru", "wp": 0.2805, "g": 0.0}]}}
            tg = 0.9998
        ctx.impl_property_evals += 1
        try:
            _oc, _arr, _cfg, _wl, _mats = build(sc)
            acceptance_vs_model(ctx, sc, _cfg, _wl, _mats)
        except (ValueError, NotImplementedError):
            pass
        d, how = bounded_fail(sc)
        ctx.case(nontrivial=("bound", i), op="bounded", target=tg, accepted=how)
        if tg > 1.02 and how == "silent" and not d:
            ctx.notes.append(f"measure {tg} accepted silently yet bounded (block scene?)")
        if d:
            ctx.violation({"kind": "bounded", "scene": sc}, d, signature=SIG_UNCHECKED)


# ------------------------------------------------------------------------------------------- S
def replay(ctx, inp):
    k = inp.get("kind")
    if k == "bounded":
        return bounded_fail(inp["scene"])[0]
    if k == "zero-strength":
        return zero_strength_fail(inp["scene"])
    if k == "declared":
        sub = type(ctx)(ctx.pid, ctx.tier, ctx.seed)
        sub.driver = ctx.driver
        try:
            return declared_check(sub, inp["scene"])
        except Exception as e:
            return f"{type(e).__name__}: {e}"
    if k == "mode-roots":
        D = 1 + inp["g"] / 2
        c1, c2, c3 = (2 - inp["w"] ** 2) / D, -(1 - inp["g"] / 2) / D, inp["k"] / D
        q = np.poly1d([1.0, -c1, -c2])
        zm = np.poly1d([1.0, -1.0])
        p = zm * zm * (q + np.poly1d([c3 / inp["eps"], 0.0])) + (np.poly1d([1.0, 0.0]) * q) * (4 * inp["sigma"] * inp["nu2"])
        r = float(np.max(np.abs(p.roots)))
        return f"root modulus {r:.6f} > 1" if r > 1 + 1e-6 else None
    if k == "multi":
        sub = type(ctx)(ctx.pid, ctx.tier, ctx.seed)
        sub.driver = ctx.driver
        try:
            return multi_check(sub, inp["scene"])
        except Exception as e:
            return f"{type(e).__name__}: {e}"
    if k == "scene":
        sub = type(ctx)(ctx.pid, ctx.tier, ctx.seed)
        sub.driver = ctx.driver
        try:
            return check_scene(sub, inp["scene"])
        except Exception as e:
            return f"{type(e).__name__}: {e}"
    return None


def search(ctx, hints):
    for h in hints:
        sc = h.get("scene") if isinstance(h, dict) else None
        if sc and "steps" in sc and sc["steps"]:
            d = replay(ctx, {"kind": "scene", "scene": sc})
            if d:
                ctx.violation({"kind": "scene", "scene": sc}, d)
                return
    rng = ctx.rng.fork()
    for i in range(4):
        sc = gen_declared(rng, i)
        ctx.impl_property_evals += 1
        d = replay(ctx, {"kind": "declared", "scene": sc})
        if d:
            ctx.violation({"kind": "declared", "scene": sc}, d)
            return
    for i in range(6):
        sc = gen_multi(rng, i)
        ctx.impl_property_evals += 1
        d = replay(ctx, {"kind": "multi", "scene": sc})
        if d:
            ctx.violation({"kind": "multi", "scene": sc}, d)
            return
    # first clause, directed: conductive zero-coefficient cells next to conductive dispersive ones, every tier
    for i, tier in enumerate(["c4", "iso", "axes", "c4", "iso", "axes"]):
        disp = gen_material(rng, tier, True)
        plain = gen_material(rng, tier, False)
        disp["sigma"], plain["sigma"] = rng.uniform(1e4, 1e5), rng.uniform(1e4, 1e5)
        sc = {"cf": rng.uniform(0.4, 0.99), "shape": [3, 3, 3], "seed": i, "steps": 3, "tier": tier, "layout": "directed",
              "bg": disp if i < 3 else plain, "block": {"size": [1, 2, 1], "at": [1, 0, 1], "mat": plain if i < 3 else disp}}
        ctx.impl_property_evals += 1
        d = replay(ctx, {"kind": "scene", "scene": sc})
        if d:
            ctx.violation({"kind": "scene", "scene": sc}, d)
            return
    # first clause: small scenes first
    for i in range(ctx.scale(12, 60)):
        sc = gen_scene(rng, i)
        sc["shape"] = [3, 3, 3]
        if sc.get("block"):
            sc["block"]["size"], sc["block"]["at"] = [1, 2, 1], [1, 0, 1]
        sc["steps"] = 3
        ctx.impl_property_evals += 1
        d = replay(ctx, {"kind": "scene", "scene": sc})
        if d:
            ctx.violation({"kind": "scene", "scene": sc}, d)
            return
    for i in range(3):
        sc = {"cf": 0.9, "shape": [3, 3, 3], "seed": i, "steps": 6,
              "bg": {"eps": 1.5, "poles": [{"kind": "lor", "w": 0.7, "g": 0.1, "de": 0.0}]}}
        d = zero_strength_fail(sc)
        if d:
            ctx.violation({"kind": "zero-strength", "scene": sc}, d)
            return
    # second clause: energy growth over (pole, courant) on both sides of the bound
    for i, tg in enumerate([1.25, 1.05, 2.0, 1.01, 0.985, 0.95, 1.5, 1.1] * ctx.scale(1, 4)):
        cf = rng.choice([0.99, 0.75, rng.uniform(0.3, 0.9)])
        poles = medium_for_measure(rng, tg, cf, 1.0, ["dru", "lor", "two"][i % 3])
        if poles is None:
            cf = 0.5
            poles = medium_for_measure(rng, tg, cf, 1.0, "dru")
        sc = {"cf": cf, "shape": [4, 4, 4], "seed": i, "steps": 0, "bg": {"eps": 1.0, "poles": poles}}
        ctx.impl_property_evals += 1
        d, how = bounded_fail(sc)
        if d:
            ctx.violation({"kind": "bounded", "scene": sc}, d, signature=SIG_UNCHECKED)
            return
