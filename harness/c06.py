"""C06 — state depends only on the steps executed (split runs, reused containers); ArrayContainer.reset.
K + S against lean/FdtdxModel/C06.lean (loops from C05).  Scene builder and tracing come from harness/c05.py."""
import json

import numpy as np

from . import c05 as base

RULE = ("K on generated tiny scenes (3-6 cells per axis, periodic/PEC/PMC/PML faces, dipole/plane source, field + energy + "
        "accumulating phasor detectors with random on/off switches; scene 0 always has a dispersive (Lorentz/Drude ADE) block "
        "inside PML walls so that the FieldState holds E, H, psi_E, psi_H, dispersive_P_curr and dispersive_P_prev; binary64): (a) `custom_fdtd_forward(start, stop)` for ~20 (start, stop) "
        "pairs per scene incl. start=stop, start>stop, stop>T (loop bound), traced and Python-int arguments, "
        "reset_container on/off: final step and the traced sequence of step indices are compared exactly with the model; "
        "(b) random histories 0=a_0<=a_1<=...<=a_n=T of consecutive partial runs (1-5 split points, repeated points "
        "allowed) vs the single run 0->T and vs `run_fdtd`: step log vs the model, final E/H and every detector state "
        "at 1e-9 (the property itself, evaluated on the implementation); (c) random sequences of full / partial / split "
        "runs on ONE reused container (each full run must reproduce the reference) incl. starts from dirty containers and "
        "from the arrays returned by a previous run; (d) `ArrayContainer.reset` with all flag combinations on containers "
        "with random, negative, +-inf and NaN entries (and a recording state): every output value is compared bit-for-bit "
        "with the model's zeros (the container is enumerated generically: every pytree leaf with its path, no name list; the scene "
        "is dispersive + PML), plus the predicate 'EVERY field-state leaf is all +0.0 (reported per leaf), every detector / (flagged) recording entry is +0.0 bit-exactly "
        "- a surviving NaN, inf or -0.0 is a violation -, materials bit-identical, shapes kept, reset idempotent'; the reuse "
        "sequences of (c) include `spoil` (the NaN/inf container a diverged run leaves behind) followed by a full run that "
        "must reproduce the reference; (e) always: histories of 4+ `custom_fdtd_forward` calls mixing reset_container True/False "
        "with record_detectors True/False on ONE container that was used before (the arrays returned by a recorded run_fdtd, "
        "and those arrays spoiled with NaN/inf): after every call each detector-state row the call did not itself record must "
        "be +0.0 bit-exactly (reset_container=True) resp. bit-identical to before (False); the per-row provenance (zero / kept "
        "/ recorded) and the executed steps are also compared with the model (`cfrd`); (f) always: on a scene with a magnetic-"
        "conductivity block, run_fdtd under gradient_config reversible / checkpointed / None on a fresh placement, then a second "
        "run from the RETURNED arrays (run_fdtd again, custom_fdtd_forward(reset_container=True) in one or two pieces): it must "
        "reproduce the first run and the returned container must keep all material / conductivity arrays (electric-conductivity "
        "scene: reversible in quick, all in thorough). non-trivial = a history with >= 2 pieces, a window hitting a bound, a dirty / spoiled "
        "start, or a reset input with a non-finite / negative entry.")


class Scene:
    """one placed scene with jitted entry points (compiled once, called many times)"""

    def __init__(self, sc, record_detectors=True):
        j = base.J()
        jax, jnp, fdtdx = j["jax"], j["jnp"], j["fdtdx"]
        from fdtdx.fdtd.fdtd import custom_fdtd_forward
        self.sc, self.j, self.T = sc, j, sc["T"]
        self.o, self.a, self.cfg = base.build(sc, None)
        key = jax.random.PRNGKey(2)
        self.key = key
        o, cfg = self.o, self.cfg
        self.cf = custom_fdtd_forward
        self._f = {r: jax.jit(lambda arr, s, e, r=r: custom_fdtd_forward(arr, o, cfg, key, r, record_detectors, s, e,
                                                                          show_progress=False)) for r in (False, True)}
        self._frd = {}
        self._run = jax.jit(lambda arr: fdtdx.run_fdtd(arr, o, cfg, key, show_progress=False))
        self.i32 = lambda x: jnp.asarray(x, dtype=jnp.int32)
        self.record_detectors = record_detectors

    def partial(self, arr, start, stop, reset=False, pyint=False):
        """one custom_fdtd_forward call; returns (state, step log)"""
        jax = self.j["jax"]
        del base.LOG[:]
        if pyint:
            st = self.cf(arr, self.o, self.cfg, self.key, reset, self.record_detectors, int(start), int(stop),
                         show_progress=False)
        else:
            st = self._f[bool(reset)](arr, self.i32(start), self.i32(stop))
        jax.block_until_ready(st[1].fields.E)
        jax.effects_barrier()
        return st, list(base.LOG)

    def call(self, arr, start, stop, reset, rd):
        """custom_fdtd_forward(reset_container=reset, record_detectors=rd, start, stop); returns (state, step log)"""
        jax = self.j["jax"]
        k = (bool(reset), bool(rd))
        if k not in self._frd:
            o, cfg, key, cf = self.o, self.cfg, self.key, self.cf
            self._frd[k] = jax.jit(lambda arr, s, e: cf(arr, o, cfg, key, k[0], k[1], s, e, show_progress=False))
        del base.LOG[:]
        st = self._frd[k](arr, self.i32(start), self.i32(stop))
        jax.block_until_ready(st[1].fields.E)
        jax.effects_barrier()
        return st, list(base.LOG)

    def det_rows(self):
        """per detector-state array (sorted by detector / key): for every row the time steps at which `forward` writes it.
        Row-per-on-step detectors: row i <- its on-step; accumulating detectors (one row): all on-steps."""
        out = []
        for name in sorted(self.a.detector_states):
            det = self.o[name]
            on = [t for t, v in enumerate(np.asarray(det._is_on_at_time_step_arr)) if bool(v)]
            for key in sorted(self.a.detector_states[name]):
                n = int(self.a.detector_states[name][key].shape[0])
                if n == len(on):
                    idx = np.asarray(det._time_step_to_arr_idx)
                    rows = [[t for t in on if int(idx[t]) == i] for i in range(n)]
                else:                                   # accumulating state (PhasorDetector): every on-step adds to every row
                    rows = [list(on) for _ in range(n)]
                out.append((name, key, rows))
        return out

    def run(self, arr):
        jax = self.j["jax"]
        del base.LOG[:]
        st = self._run(arr)
        jax.block_until_ready(st[1].fields.E)
        jax.effects_barrier()
        return st, list(base.LOG)

    def history(self, arr, pts, reset_first=True):
        """consecutive partial runs pts[0]->pts[1]->...; the container is reset before the first piece only"""
        log = []
        st = (None, arr.reset() if reset_first else arr)
        for a, b in zip(pts[:-1], pts[1:]):
            st, l = self.partial(st[1], a, b)
            log += l
        return st, log


def snap(st):
    return base.snapshot(st[0], st[1])


# ------------------------------------------------------------------------------------ generators
def gen_history(rng, T):
    n = rng.randint(1, 5)
    pts = sorted(rng.randint(0, T) for _ in range(n))
    if rng.chance(0.3) and pts:
        pts.append(pts[-1])              # an empty piece
    return [0] + sorted(pts) + [T]


def gen_windows(rng, T, n):
    ws = [(0, T), (0, 0), (T, T), (0, T + 3), (2, T + 2), (T - 1, 1), (1, T - 1), (T, T + 2)]
    while len(ws) < n:
        ws.append((rng.randint(0, T), rng.randint(0, T + 2)))
    return ws[:n]


# ------------------------------------------------------------------------------------ reset
def _flat(leaves):
    leaves = [np.asarray(x) for x in leaves if hasattr(x, "shape") or isinstance(x, (int, float))]
    leaves = [(np.stack([x.real, x.imag], axis=-1) if np.iscomplexobj(x) else x).astype(np.float64).ravel() for x in leaves]
    return np.concatenate(leaves) if leaves else np.zeros(0)


def flat_container(j, arr):
    """(fields, det, recording or None, mat) as flat float64 numpy arrays.  Generic over the pytree: every leaf of the
    container is enumerated with its path (base.container_leaves) and assigned to its group - no attribute name list."""
    groups = {"fields": [], "det": [], "rec": [], "mat": []}
    for g, _, leaf in base.container_leaves(arr):
        groups[g].append(leaf)
    rec = _flat(groups["rec"]) if arr.recording_state is not None else None
    if rec is not None and rec.size == 0:
        rec = None
    return _flat(groups["fields"]), _flat(groups["det"]), rec, _flat(groups["mat"])


def field_leaves(arr):
    """every FieldState leaf with its key: E, H, psi_E#k, psi_H#k, dispersive_P_curr, dispersive_P_prev, ..."""
    return [(key, leaf) for g, key, leaf in base.container_leaves(arr) if g == "fields" and hasattr(leaf, "shape")]


def canon_bits(x):
    """bit patterns with every NaN mapped to the canonical quiet NaN (the sign of `inf*0` is platform noise)"""
    x = np.asarray(x, dtype=np.float64)
    b = x.view(np.uint64).copy()
    b[np.isnan(x)] = 0x7FF8000000000000
    return ["%016x" % int(v) for v in b]


def spoil(j, arr, seed, specials=True):
    """dirty container with negative, infinite and NaN entries in fields, detector states and recording state"""
    jnp, jax = j["jnp"], j["jax"]
    arr = base.dirty(j, arr, seed)
    if not specials:
        return arr
    rs = np.random.RandomState(seed + 1)

    def sp(x):
        if not hasattr(x, "shape") or x.size < 4:
            return x
        v = np.array(x, dtype=np.complex128 if np.iscomplexobj(np.asarray(x)) else np.float64).ravel()
        idx = rs.choice(v.size, size=4, replace=False)
        v[idx[0]], v[idx[1]], v[idx[2]], v[idx[3]] = np.nan, np.inf, -np.inf, -2.5
        return jnp.asarray(v.reshape(x.shape), dtype=x.dtype)

    arr = arr.aset("fields", jax.tree.map(sp, arr.fields))
    arr = arr.aset("detector_states", {k: {k2: sp(v2) for k2, v2 in v.items()} for k, v in arr.detector_states.items()})
    if arr.recording_state is not None and jax.tree.leaves(arr.recording_state):
        def spr(x):
            if hasattr(x, "shape") and np.issubdtype(np.asarray(x).dtype, np.floating):
                return sp(jnp.asarray(rs.standard_normal(x.shape), dtype=x.dtype))
            return x
        arr = arr.aset("recording_state", jax.tree.map(spr, arr.recording_state))
    return arr


def reset_fails(j, arr, rd=True, rr=False):
    """the property's reset sentence on the implementation: every time-dependent entry is +0.0 bit-exactly (a surviving
    NaN / inf / -0.0 is a failure), materials bit-identical, shapes kept, idempotent.  Returns a detail string or None."""
    r = arr.reset(reset_detector_states=rd, reset_recording_state=rr)
    f0, d0, r0, m0 = flat_container(j, arr)
    f1, d1, r1, m1 = flat_container(j, r)
    if f1.shape != f0.shape or d1.shape != d0.shape or ((r0 is None) != (r1 is None)) or (r0 is not None and r0.shape != r1.shape):
        return "reset changed array shapes"

    def not_plus_zero(x):
        b = np.asarray(x, dtype=np.float64).view(np.uint64)
        bad = np.nonzero(b != 0)[0]
        if bad.size == 0:
            return None
        v = np.asarray(x, dtype=np.float64)[bad]
        return (f"{bad.size} entries are not +0.0 ({int(np.sum(np.isnan(v)))} NaN, {int(np.sum(np.isinf(v)))} inf, "
                f"{int(np.sum((v == 0) & np.signbit(v)))} -0.0, {int(np.sum(np.isfinite(v) & (v != 0)))} non-zero)")

    keys0, keys1 = [k for k, _ in field_leaves(arr)], [k for k, _ in field_leaves(r)]
    if keys0 != keys1:
        return f"reset changed the set of field-state leaves: {keys0} -> {keys1}"
    for key, leaf in field_leaves(r):          # EVERY field-state leaf must be all +0.0 after reset
        d = not_plus_zero(_flat([leaf]))
        if d:
            return f"after reset the field-state leaf `{key}` is not zeroed: " + d
    if canon_bits(m1) != canon_bits(m0):
        return "reset changed material arrays"
    if rd:
        d = not_plus_zero(d1)
        if d:
            return ("after reset the detector states are not zeroed: " + d +
                    f" (input held {int(np.sum(~np.isfinite(d0)))} non-finite and {int(np.sum(d0 < 0))} negative entries)")
    elif canon_bits(d1) != canon_bits(d0):
        return "reset(reset_detector_states=False) changed detector states"
    if r0 is not None:
        if rr:
            d = not_plus_zero(r1)
            if d:
                return "after reset(reset_recording_state=True) the recording state is not zeroed: " + d
        elif canon_bits(r1) != canon_bits(r0):
            return "reset changed the recording state although reset_recording_state=False"
    r2 = r.reset(reset_detector_states=rd, reset_recording_state=rr)
    if any(canon_bits(x) != canon_bits(y) for x, y in zip(flat_container(j, r2)[:2], (f1, d1))):
        return "reset is not idempotent"
    return None


# ------------------------------------------------------------------------------------ reset_container x record_detectors
def row_bits(v):
    """per row of a detector-state array: tuple of canonical bit patterns (complex arrays as interleaved re/im)"""
    v = np.asarray(v)
    if np.iscomplexobj(v):
        v = np.stack([v.real, v.imag], axis=-1)
    v = np.asarray(v, dtype=np.float64).reshape(v.shape[0], -1)
    return [tuple(canon_bits(r)) for r in v]


def executed(T, start, stop):
    """steps a custom_fdtd_forward(start, stop) call executes (loop bound T)"""
    return list(range(start, min(stop, start + T))) if stop > start else []


def gen_flag_calls(rng, T, n):
    """(reset_container, record_detectors, start, stop); the first two are always the unrecorded-reset probes"""
    calls = [(True, False, 0, rng.randint(1, T)), (False, False, rng.randint(0, T - 1), T)]
    while len(calls) < n:
        a = rng.randint(0, T - 1)
        calls.append((rng.chance(0.5), rng.chance(0.5), a, rng.randint(a, T)))
    return calls


def flags_fail(S, before, calls, seed=0, ctx=None, case=None):
    """a history of custom_fdtd_forward calls with every reset_container x record_detectors combination on ONE container
    that was used before (`before` = 'recorded': the arrays returned by a recorded run_fdtd; 'spoil': those arrays with
    NaN / inf / negative entries).  After every call: each detector-state row that the call did not itself record must be
    exactly +0.0 when reset_container=True and bit-identical to its value before the call otherwise.
    With `ctx` the same calls are also compared with the model's provenance tags (K).  Returns a detail string or None."""
    j = S.j
    arr = S.run(S.a)[0][1]
    if before == "spoil":
        arr = spoil(j, arr, int(seed) + 17)
    rows = S.det_rows()
    row_tokens = [",".join(map(str, r)) if r else "-" for (_, _, rs) in rows for r in rs]
    for k, (reset, rd, start, stop) in enumerate(calls):
        prev = {(n, key): row_bits(arr.detector_states[n][key]) for (n, key, _) in rows}
        st, log = S.call(arr, start, stop, reset, rd)
        arr = st[1]
        ex = executed(S.T, start, stop)
        tags = []
        for (n, key, rs) in rows:
            now = row_bits(arr.detector_states[n][key])
            for i, steps in enumerate(rs):
                written = rd and any(t in ex for t in steps)
                zero = all(b == "0000000000000000" for b in now[i])
                same = now[i] == prev[(n, key)][i]
                tags.append("r" if written else ("z" if (zero and reset) else f"k{len(tags)}" if (same and not reset) else
                                                 "z!" if zero else "k!" if same else "r!"))
                if written:
                    continue
                what = (f"call {k} of {calls} after a {before} run: custom_fdtd_forward(reset_container={reset}, "
                        f"record_detectors={rd}, {start}->{stop})")
                if reset and not zero:
                    bad = [b for b in now[i] if b != "0000000000000000"]
                    return (f"{what} left row {i} of detector state {n}/{key} non-zero although the call did not record it "
                            f"({len(bad)} entries, e.g. {base_h2f(bad[0])!r}; stale={same})")
                if not reset and not same:
                    return f"{what} changed row {i} of detector state {n}/{key} although it neither reset nor recorded it"
        if ctx is not None:
            rep = ctx.driver.ask_many([f"cfrd {S.T} {start} {stop} {int(reset)} {int(rd)} " + " ".join(row_tokens)])[0]
            want_t, want_tags = rep.split(" | ") if " | " in rep else (rep, "")
            ctx.expect_equal("cfrd", dict(case, call=k), f"{int(st[0])} | {' '.join(tags)}", rep)
            ctx.expect_equal("cfrd-steps", dict(case, call=k), log, ex)
    return None


def base_h2f(h):
    from .common import h2f
    return h2f(h)


# ------------------------------------------------------------------------------------ rerun from returned arrays, any strategy
def rerun_fails(sc, g, mode, tol=1e-9, ctx=None, case=None):
    """run_fdtd under gradient config g on a fresh placement, then a SECOND run started from the arrays it returned
    (mode 'run': run_fdtd again; 'cf': custom_fdtd_forward(reset_container=True, 0->T); 'split': the same in two pieces).
    The second run must reproduce the run from the fresh placement: step count, E/H, detector states, and the returned
    container must still hold every material / conductivity array."""
    j = base.J()
    jax, fdtdx = j["jax"], j["fdtdx"]
    from fdtdx.fdtd.fdtd import custom_fdtd_forward
    o, a, cfg = base.build(sc, g)
    key = jax.random.PRNGKey(2)
    T = sc["T"]
    ts1, out1 = fdtdx.run_fdtd(a, o, cfg, key, show_progress=False)
    t1, ref = base.snapshot(ts1, out1)
    del base.LOG[:]
    if mode == "run":
        ts2, out2 = fdtdx.run_fdtd(out1, o, cfg, key, show_progress=False)
    elif mode == "cf":
        ts2, out2 = custom_fdtd_forward(out1, o, cfg, key, True, True, 0, T, show_progress=False)
    else:
        b = max(1, T // 2)
        _, mid = custom_fdtd_forward(out1, o, cfg, key, True, True, 0, b, show_progress=False)
        ts2, out2 = custom_fdtd_forward(mid, o, cfg, key, False, True, b, T, show_progress=False)
    jax.block_until_ready(out2.fields.E)
    jax.effects_barrier()
    log = list(base.LOG)
    t2, s2 = base.snapshot(ts2, out2)
    if ctx is not None:
        rep = ctx.driver.ask_many([f"cf {T} 0 {T} 2 1"])[0]
        ctx.expect_equal("rerun-steps", case, f"{t2} | {' '.join(map(str, log))}", rep)
    what = f"second run ({mode}) from the arrays returned by run_fdtd under {json.dumps(g)}"
    if t1 != T or t2 != T:
        return f"{what}: step counts {t1}, {t2}, expected {T}"
    fresh = base.snapshot(0, a)[1]
    lost = sorted(k for k in fresh if k.startswith("mat:") and k not in ref)
    lost2 = sorted(k for k in ref if k not in s2)
    common = {k: s2[k] for k in s2 if k in ref}
    ok, txt = base.snap_diff(common, {k: ref[k] for k in common}, tol)
    if lost or lost2 or not ok:
        return (f"{what} does not reproduce the run from the fresh placement: {txt}"
                + (f"; the container returned by the first run lost {lost} (present in the placed container)" if lost else "")
                + (f"; the second run's container lost {lost2}" if lost2 else ""))
    return None


GRADS = [{"method": "reversible", "c": 0}, {"method": "checkpointed", "n": 2}, {"method": "none"}]


def k_rerun(ctx):
    """(f) lossy scenes: rerun from returned arrays under every gradient strategy"""
    T = ctx.rng.randint(5, 8)
    variants = ({"sigma_m": float(ctx.rng.choice([1e9, 3e9]))}, {"sigma_e": float(ctx.rng.choice([1e5, 3e4]))},
                {"disp": ctx.rng.choice(DISPERSIONS), "blk_shape": [3, 3, 3], "bound": "pml"})
    for li, lossy in enumerate(variants):
        sc = {"shape": [ctx.rng.randint(5 if "disp" in lossy else 3, 5) for _ in range(3)], "T": T,
              "bound": ctx.rng.choice(["periodic", "pec"]),
              "src": "dipole", "pol": ctx.rng.randint(0, 2), "src_switch": None,
              "dets": [{"kind": "field", "switch": base.gen_switch(ctx.rng, T)}, {"kind": "phasor", "switch": None}],
              "spp": 4.0, "eps": ctx.rng.choice([None, 2.25]), **lossy}
        if "disp" in lossy:          # reversible_fdtd rejects dispersive scenes (NotImplementedError)
            grads = GRADS[1:] if ctx.thorough else GRADS[2:]
        else:
            grads = GRADS if (li == 0 or ctx.thorough) else GRADS[:1]
        for gi, g in enumerate(grads):
            if g["method"] == "reversible" and ctx.rng.chance(0.5):
                g = {"method": "reversible", "c": ctx.rng.randint(1, min(2, T - 1))}
            modes = ["run", "cf", "split"] if (ctx.thorough or "disp" in lossy) else [["run", "cf", "split"][(gi + li) % 3]] + (["run"] if (gi + li) % 3 else [])
            for mode in modes:
                case = {"kind": "rerun", "scene": sc, "grad": g, "mode": mode}
                ctx.case(nontrivial=("rerun", li, json.dumps(g, sort_keys=True), mode), op="rerun-from-output", method=g["method"],
                         mode=mode, conductivity="magnetic" if "sigma_m" in lossy else "electric" if "sigma_e" in lossy else "dispersive")
                ctx.impl_property_evals += 1
                d = rerun_fails(sc, g, mode, ctx=ctx, case=case)
                if d:
                    ctx.violation(case, d)


# ------------------------------------------------------------------------------------ property oracle
def history_fails(S, pts, start_seed=None, ref=None, tol=1e-9):
    j = S.j
    arr = S.a if start_seed is None else base.dirty(j, S.a, int(start_seed))
    if ref is None:          # the reference is always the single run from the FRESH placement
        ref = snap(S.partial(S.a, 0, S.T, reset=True)[0])
    st, _ = S.history(arr, pts)
    t, s1 = snap(st)
    if t != pts[-1]:
        return f"history {pts} ended at step {t}"
    ok, txt = base.snap_diff(s1, ref[1], tol)
    if not ok:
        return f"split run {pts} differs from the single run 0->{S.T}: {txt}"
    return None


def reuse_fails(S, ops, seed, ref=None, tol=1e-9):
    """a sequence of runs on one reused container; every full run must reproduce the reference"""
    j = S.j
    rng = base_rng(seed)
    if ref is None:
        ref = snap(S.run(S.a)[0])
    arr = S.a
    for k, op in enumerate(ops):
        full = True
        if op == "run":
            st, _ = S.run(arr)
        elif op == "cf_reset":
            st, _ = S.partial(arr, 0, S.T, reset=True)
        elif op == "cf_reset_py":
            st, _ = S.partial(arr, 0, S.T, reset=True, pyint=True)
        elif op == "hist":
            st, _ = S.history(arr, gen_history(rng, S.T))
        elif op == "partial":                       # leaves the container somewhere in the middle of a run
            a = rng.randint(0, S.T - 1)
            st, _ = S.partial(arr, a, rng.randint(a, S.T))
            full = False
        elif op == "dirty":
            st = (None, base.dirty(j, arr, rng.randint(1, 10 ** 6)))
            full = False
        elif op == "spoil":                         # the container a diverged run leaves behind: NaN / inf / negative entries
            st = (None, spoil(j, arr, rng.randint(1, 10 ** 6)))
            full = False
        else:
            raise ValueError(op)
        arr = st[1]
        if full:
            t, s1 = snap(st)
            if t != S.T:
                return f"op {k} ({op}) of {ops} ended at step {t}, expected {S.T}"
            ok, txt = base.snap_diff(s1, ref[1], tol)
            if not ok:
                return f"op {k} ({op}) of the sequence {ops} on a reused container differs from the first run: {txt}"
    return None


def base_rng(seed):
    from .common import Rng
    return Rng(int(seed))


OPS = ["run", "cf_reset", "hist", "partial", "dirty", "spoil", "run", "cf_reset_py"]


# ------------------------------------------------------------------------------------------- K
def k_scene(ctx, sc, idx):
    j = base.J()
    S = Scene(sc)
    T = S.T
    kinds = dict(bound=sc["bound"], src=sc["src"])
    # reference runs
    st_run, log_run = S.run(S.a)
    ref = snap(st_run)
    st_one, log_one = S.partial(S.a, 0, T, reset=True)
    one = snap(st_one)
    ctx.case(nontrivial=("ref", idx), op="run_fdtd-vs-custom", **kinds)
    rep = ctx.driver.ask_many([f"cf {T} 0 {T} 2 1"])[0]
    ctx.expect_equal("cf", {"kind": "window", "scene": sc, "w": [0, T], "reset": True},
                     f"{one[0]} | {' '.join(map(str, log_one))}", rep)
    ctx.expect_equal("run_fdtd-steps", {"kind": "reuse", "scene": sc, "ops": ["run"], "seed": 0},
                     f"{ref[0]} | {' '.join(map(str, log_run))}", rep)
    ctx.impl_property_evals += 1
    ok, txt = base.snap_diff(one[1], ref[1], 1e-9)
    if not ok or one[0] != ref[0]:
        ctx.violation({"kind": "reuse", "scene": sc, "ops": ["cf_reset"], "seed": 0},
                      f"custom_fdtd_forward(reset, 0->{T}) differs from run_fdtd: {txt}; steps {one[0]} vs {ref[0]}")
    # (a) windows
    ws = gen_windows(ctx.rng, T, ctx.scale(14, 40))
    lines = [f"cf {T} {a} {b} 0 0" for (a, b) in ws]
    reps = ctx.driver.ask_many(lines)
    a0 = S.a.reset()
    for i, ((a, b), rep) in enumerate(zip(ws, reps)):
        pyint = (i in (1, 6))
        st, log = S.partial(a0, a, b, pyint=pyint)
        impl = f"{int(st[0])} | {' '.join(map(str, log))}"
        case = {"kind": "window", "scene": sc, "w": [a, b], "reset": False, "pyint": pyint}
        ctx.case(sample={"op": "cf", **case, "model": rep} if (idx == 0 and i == 6) else None,
                 nontrivial=("w", idx, a, b) if (b > T or a > b or a == b) else None, op="window",
                 window=("stop>T" if b > T else "start>stop" if a > b else "empty" if a == b else "inside"),
                 args="python-int" if pyint else "traced", **kinds)
        ctx.expect_equal("cf", case, impl, rep)
    # (b) histories
    for i in range(ctx.scale(4, 12)):
        pts = gen_history(ctx.rng, T)
        dirty_seed = ctx.rng.randint(1, 10 ** 6) if i % 2 else None
        arr = S.a if dirty_seed is None else base.dirty(j, S.a, dirty_seed)
        st, log = S.history(arr, pts)
        rep = ctx.driver.ask_many([f"hist {T} " + " ".join(map(str, pts))])[0]
        case = {"kind": "history", "scene": sc, "pts": pts, "start": dirty_seed}
        ctx.case(sample={"op": "hist", **case, "model": rep} if (idx == 0 and i == 0) else None,
                 nontrivial=("h", idx, tuple(pts), dirty_seed), op="history", pieces=len(pts) - 1,
                 start="fresh" if dirty_seed is None else "dirty", **kinds)
        ctx.expect_equal("hist", case, f"{int(st[0])} | {' '.join(map(str, log))}", rep)
        ctx.impl_property_evals += 1
        t, s1 = snap(st)
        ok, txt = base.snap_diff(s1, one[1], 1e-9)
        if not ok or t != T:
            ctx.violation(case, f"split run {pts} differs from the single run 0->{T}: {txt} (final step {t})")
    # (c) sequences on a reused container
    for i in range(ctx.scale(2, 6)):
        ops = [ctx.rng.choice(OPS) for _ in range(ctx.rng.randint(3, 5))] + ["run"]
        if i == 0:
            ops = ["run", "spoil", "run", "partial", "cf_reset", "dirty", "run"]
        seed = ctx.rng.randint(1, 10 ** 6)
        case = {"kind": "reuse", "scene": sc, "ops": ops, "seed": seed}
        ctx.case(nontrivial=("r", idx, tuple(ops), seed), op="reuse", n_ops=len(ops), **kinds)
        ctx.impl_property_evals += 1
        d = reuse_fails(S, ops, seed, ref=ref)
        if d:
            ctx.violation(case, d)
    if idx == 0 or ctx.thorough:
        k_flags(ctx, S, sc, idx)


def k_flags(ctx, S, sc, idx):
    """(e) reset_container x record_detectors histories on a used container"""
    for before in ("recorded", "spoil"):
        seed = ctx.rng.randint(1, 10 ** 6)
        calls = gen_flag_calls(ctx.rng, S.T, ctx.scale(4, 7))
        case = {"kind": "flags", "scene": sc, "before": before, "calls": [list(c) for c in calls], "seed": seed}
        ctx.case(sample={"op": "flags", **case} if (idx == 0 and before == "recorded") else None,
                 nontrivial=("flags", idx, before, seed), op="flag-history", before=before,
                 combos="".join(sorted({f"[reset={int(c[0])},rec={int(c[1])}]" for c in calls})),
                 bound=sc["bound"], src=sc["src"])
        ctx.impl_property_evals += 1
        d = flags_fail(S, before, calls, seed, ctx=ctx, case=case)
        if d:
            ctx.violation(case, d)


def k_reset(ctx, sc, grad, idx):
    """(d) reset: model vs implementation bit for bit, plus the predicate"""
    j = base.J()
    o, a, cfg = base.build(sc, grad)
    for i, (rd, rr, specials) in enumerate([(1, 0, True), (0, 0, True), (1, 1, True), (1, 0, False), (0, 1, False)]):
        seed = ctx.rng.randint(1, 10 ** 6)
        arr = spoil(j, a, seed, specials)
        f0, d0, r0, m0 = flat_container(j, arr)
        r = arr.reset(reset_detector_states=bool(rd), reset_recording_state=bool(rr))
        f1, d1, r1, m1 = flat_container(j, r)
        vals = list(f0) + list(d0) + (list(r0) if r0 is not None else []) + list(m0)
        from .common import f2h
        line = f"reset {rd} {rr} {len(f0)} {len(d0)} {0 if r0 is None else len(r0)} {len(m0)} " + " ".join(f2h(v) for v in vals)
        rep = ctx.driver.ask_many([line])[0]
        impl = " | ".join([" ".join(canon_bits(f1)), " ".join(canon_bits(d1)),
                           "none" if r1 is None else "some " + " ".join(canon_bits(r1)), " ".join(canon_bits(m1))])
        case = {"kind": "reset", "scene": sc, "grad": grad, "seed": seed, "rd": rd, "rr": rr, "specials": specials}
        ctx.case(sample={"op": "reset", **case, "n_values": len(vals)} if i == 0 and idx == 0 else None,
                 nontrivial=("reset", idx, rd, rr, specials), op="reset", flags=f"det={rd},rec={rr}",
                 recording="yes" if r0 is not None else "no", specials=specials,
                 fieldstate_leaves=",".join(sorted({k.split("#")[0] for k, _ in field_leaves(arr)})))
        ctx.expect_equal("reset", case, impl, rep)
        # component-wise: the six FieldState components of the model (E, H, psi_E, psi_H, P_curr, P_prev) vs the leaves of the
        # implementation grouped by the FieldState attribute they sit under (any other attribute would be a mismatch)
        comp = {"E": [], "H": [], "psi_E": [], "psi_H": [], "dispersive_P_curr": [], "dispersive_P_prev": []}
        comp1 = {k: [] for k in comp}
        unknown = []
        for (key, l0), (_, l1) in zip(field_leaves(arr), field_leaves(r)):
            attr = key.split("#")[0]
            if attr in comp:
                comp[attr].append(l0)
                comp1[attr].append(l1)
            else:
                unknown.append(attr)
        v0 = [_flat(comp[k]) for k in comp]
        line = "resetfs " + " ".join(str(len(x)) for x in v0) + " " + " ".join(f2h(v) for x in v0 for v in x)
        rep = ctx.driver.ask_many([line])[0]
        impl = " | ".join(" ".join(canon_bits(_flat(comp1[k]))) for k in comp) + " | 1"
        ctx.expect_equal("reset-fieldstate-components", case, impl if not unknown else f"unmodelled FieldState leaves {unknown}", rep)
        ctx.impl_property_evals += 1
        d = reset_fails(j, arr, bool(rd), bool(rr))
        if d:
            ctx.violation(case, d)


DISPERSIONS = [{"kind": "lorentz", "w0": 2e15, "gamma": 1e13, "deps": 1.5}, {"kind": "drude", "wp": 2e15, "gamma": 1e14},
               {"kind": "lorentz", "w0": 4e15, "gamma": 5e13, "deps": 0.8}]


def make_dispersive(rng, sc, pml):
    """give the scene a dispersive block around the source (and PML walls): polarisation history becomes part of the state"""
    sc["disp"] = rng.choice(DISPERSIONS)
    sc["blk_shape"] = [3, 3, 3]
    sc["shape"] = [max(5, x) for x in sc["shape"]]
    sc["sigma_e"] = sc["sigma_m"] = None
    if pml:
        sc["bound"] = "pml"
    return sc


def run(ctx):
    base.J()
    n = ctx.scale(2, 8)
    for i in range(n):
        sc = base.gen_scene(ctx.rng.fork(), ctx.scale(10, 20), i + 1 + ctx.seed)
        if sc["bound"] == "pml" and not ctx.thorough:
            sc["dets"] = sc["dets"][:2]
        # an accumulating detector: its record after a rerun depends on what reset left in the state
        sc["dets"] = sc["dets"][:2] + [{"kind": "phasor", "switch": base.gen_switch(ctx.rng, sc["T"]), "reduce": ctx.rng.chance(0.5)}]
        if i == 0:
            # always: a dispersive (ADE) block inside PML walls, so that the FieldState carries every kind of dynamic leaf
            # (E, H, psi_E, psi_H, dispersive_P_curr, dispersive_P_prev) in the split / reuse / flag histories
            make_dispersive(ctx.rng, sc, pml=True)
        elif i % 3 == 2:
            make_dispersive(ctx.rng, sc, pml=False)
        k_scene(ctx, sc, i)
    k_rerun(ctx)
    # reset: one scene without and one with a recording state (reversible gradient config + PML)
    sc0 = make_dispersive(ctx.rng, base.gen_scene(ctx.rng.fork(), 8, 0), pml=True)
    k_reset(ctx, sc0, {"method": "none"}, 0)
    sc1 = dict(base.gen_scene(ctx.rng.fork(), 6, 2), dets=[{"kind": "field", "switch": None}])
    k_reset(ctx, sc1, {"method": "reversible", "c": 0}, 1)


# ------------------------------------------------------------------------------------------- S
def search(ctx, hints):
    for h in hints:
        if isinstance(h, dict):
            ctx.impl_property_evals += 1
            d = replay(ctx, h)
            if d:
                ctx.violation(h, d)
                return
    for lossy in ({"disp": DISPERSIONS[0], "blk_shape": [3, 3, 3], "bound": "pml", "shape": [5, 5, 5]}, {"sigma_m": 1e9},
                  {"sigma_e": 1e5}, {}):
        sc = {"shape": [3, 3, 4], "T": 4, "bound": "periodic", "src": "dipole", "pol": 2, "src_switch": None,
              "dets": [{"kind": "field", "switch": None}, {"kind": "phasor", "switch": None}], "spp": 4.0, "eps": None, **lossy}
        for g in (GRADS[1:] if "disp" in lossy else GRADS):
            for mode in ("run", "cf", "split"):
                case = {"kind": "rerun", "scene": sc, "grad": g, "mode": mode}
                ctx.impl_property_evals += 1
                d = rerun_fails(sc, g, mode)
                if d:
                    ctx.violation(case, d)
                    return
    # smallest first: every split point / every two split points of short runs, then reuse sequences, then reset
    for T in (2, 3, 5, 8):
        for bound in ("periodic", "pec"):
            sc = {"shape": [3, 3, 4], "T": T, "bound": bound, "src": "dipole", "pol": 2, "src_switch": None,
                  "dets": [{"kind": "field", "switch": None}, {"kind": "energy", "switch": {"interval": 2}},
                           {"kind": "phasor", "switch": None}],
                  "spp": 4.0, "eps": None}
            S = Scene(sc)
            ref = snap(S.partial(S.a, 0, T, reset=True)[0])
            hs = [[0, b, T] for b in range(0, T + 1)] + [[0, b, c, T] for b in range(0, T + 1) for c in range(b, T + 1)]
            for pts in hs:
                for start in (None, 11):
                    ctx.impl_property_evals += 1
                    d = history_fails(S, pts, start, ref=ref)
                    if d:
                        ctx.violation({"kind": "history", "scene": sc, "pts": pts, "start": start}, d)
                        return
            for ops in (["run", "run"], ["dirty", "run"], ["spoil", "run"], ["spoil", "cf_reset"], ["partial", "run"], ["partial", "cf_reset"], ["run", "cf_reset_py"],
                        ["dirty", "hist"]):
                ctx.impl_property_evals += 1
                d = reuse_fails(S, ops, 5)
                if d:
                    ctx.violation({"kind": "reuse", "scene": sc, "ops": ops, "seed": 5}, d)
                    return
            for before in ("recorded", "spoil"):
                calls = [[r, d, a, b] for r in (True, False) for d in (False, True) for (a, b) in ((0, T), (1, max(1, T - 1)))]
                case = {"kind": "flags", "scene": sc, "before": before, "calls": calls, "seed": 1}
                ctx.impl_property_evals += 1
                d = replay(ctx, case)
                if d:
                    # shrink to the single failing call on the used container
                    for c in calls:
                        one = dict(case, calls=[c])
                        d1 = replay(ctx, one)
                        if d1:
                            case, d = one, d1
                            break
                    ctx.violation(case, d)
                    return
            for (rd, rr, specials) in ((1, 0, False), (1, 0, True), (0, 0, True), (1, 1, True)):
                case = {"kind": "reset", "scene": sc, "grad": {"method": "none"}, "seed": 3, "rd": rd, "rr": rr, "specials": specials}
                ctx.impl_property_evals += 1
                d = replay(ctx, case)
                if d:
                    ctx.violation(case, d)
                    return


def replay(ctx, inp):
    kind = inp.get("kind")
    if kind == "history":
        return history_fails(Scene(inp["scene"]), inp["pts"], inp.get("start"))
    if kind == "reuse":
        return reuse_fails(Scene(inp["scene"]), inp["ops"], inp.get("seed", 0))
    if kind == "window":
        # a window is a model-correspondence case; the property it supports is the split one
        a, b = inp["w"]
        T = inp["scene"]["T"]
        if 0 <= a <= b <= T:
            return history_fails(Scene(inp["scene"]), sorted({0, a, b, T}) if a != b else [0, a, b, T])
        return None
    if kind == "rerun":
        return rerun_fails(inp["scene"], inp["grad"], inp["mode"])
    if kind == "flags":
        return flags_fail(Scene(inp["scene"]), inp["before"], [tuple(c) for c in inp["calls"]], inp.get("seed", 0))
    if kind == "reset":
        j = base.J()
        o, a, cfg = base.build(inp["scene"], inp.get("grad"))
        arr = spoil(j, a, inp["seed"], inp.get("specials", True))
        return reset_fails(j, arr, bool(inp["rd"]), bool(inp["rr"]))
    return None
