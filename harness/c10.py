"""C10 — fields are linear in sources and initial state.

Property oracle (the property itself, on the real code): fdtdx.run_fdtd on one placed scene with the sources'
`static_amplitude_factor` set to (alpha,0), (0,beta), (a*alpha, b*beta), (c*a*alpha, c*b*beta): final fields and
field / phasor records superpose, energy / Poynting records scale with c^2.  K: fdtdx.fdtd.forward.forward with
non-zero initial fields and real sources vs the shared Yee model (additive source terms probed on zero fields),
superposition of initial states through the real forward() with active PML, the record expressions
(compute_energy, compute_poynting_flux) and one cell of PerfectlyMatchedLayer.step_cpml vs the model."""
import numpy as np

from . import yee_api as Y
from .common import f2h, h2fs

RULE = ("scenes from the seed: 4..6 (thorough 4..8) cells per axis (>= 2*thickness+2 on PML axes, PML thickness 2, thorough 2..3); "
        "per axis one of pml/pml, periodic/periodic, pec/pec, pmc/pmc, none/none, pec/pmc, pml/pec; uniform or non-uniform "
        "grid; 1..2 sources out of UniformPlaneSource, GaussianPlaneSource, PointDipoleSource electric/magnetic (any "
        "axis/direction/polarisation, cw or Gaussian pulse, default/start-time/interval switch); detectors: FieldDetector "
        "(full or volume-reduced, with/without co-location), PhasorDetector, EnergyDetector (full/reduced/slices), "
        "PoyntingFluxDetector (plane, reduced or not, all components or one), ClosedSurfacePoyntingFluxDetector; random isotropic/diagonal inv_eps, optional "
        "sigma_E; run of 6..12 steps; gradient config none or reversible. Property oracle per scene: run_fdtd with "
        "amplitude factors (alpha,0),(0,beta),(a alpha,b beta),(c a alpha,c b beta): fields + field/phasor records "
        "superpose (1e-9 relative to the larger part), energy/Poynting records scale with c^2. K per scene: (1) forward() "
        "for 2 steps with active PML from random states s1, s2 and a s1 + b s2 (sources at the matching factors) "
        "superposes; (2) the probed source terms are linear in the factors; (3) one forward() step "
        "(simulate_boundaries=False) from a s1 + b s2 with sources vs the Lean model; (4) compute_energy / "
        "compute_poynting_flux vs model; (5) step_cpml cells vs model; (6) forward() with ACTIVE PML and random psi arrays vs "
        "the CPML model pmlfwd (fields and psi; the superposition (1) includes the psi arrays). Full-tensor scene (one per run, "
        "thorough 6): 9-component inv_eps / inv_mu / sigma tensors, forward() x2 from s1, s2, a s1 + b s2 superposes and "
        "matches the any-tier model afwd. One amplitude scene per run (thorough: 5) has a plane "
        "source plus a small Lorentz / Drude block elsewhere in the volume (dispersive H-side temporal filter of the TFSF "
        "source; oracle-only, no model comparison). Placed-factor scene (always one in quick, thorough 4): UniformPlaneSource and GaussianPlaneSource "
        "with normalize_by_energy=False and a UniformPlaneSource with the default normalisation get their "
        "static_amplitude_factor AT CONSTRUCTION; three separate placements at f0 (negative for odd seeds), -f0, 2 f0: fields "
        "and Field/Phasor records must be exactly -1x / 2x (sign included), energy 1x / 4x. Removal scenes (always two in quick: a TILTED magnetic "
        "and a TILTED electric PointDipoleSource, azimuth and elevation != 0, plus a neighbouring second source whose field "
        "reaches the dipole cell): three SEPARATE placements (source 0 only, source 1 only, both) run through run_fdtd, fields "
        "and Field/Phasor records of the joint run = sum of the partial runs; and forward() from a non-zero state with the "
        "tilted dipole alone vs the model (injected increment independent of the field). non-trivial = both partial runs end "
        "with non-zero fields (sources really on; removal scenes: and the second source's field is non-zero in the dipole cell).")

TOL = 1e-9
AXPAIRS = [("pml", "pml"), ("pml", "pml"), ("periodic", "periodic"), ("periodic", "periodic"), ("pec", "pec"), ("pmc", "pmc"),
           ("none", "none"), ("pec", "pmc"), ("pml", "pec")]
SRC_KINDS = ["uniform", "gauss", "dipole_e", "dipole_m"]


# ------------------------------------------------------------------------------------------ generator
def gen_case(rng, thorough, force=None):
    c = {}
    th = rng.choice([2, 2, 3]) if thorough else 2
    c["pml_thickness"] = th
    faces = {}
    shape = []
    for ax in range(3):
        lo, hi = rng.choice(AXPAIRS)
        faces[Y.FACES[2 * ax]], faces[Y.FACES[2 * ax + 1]] = lo, hi
        npml = (lo == "pml") + (hi == "pml")
        nmin = max(4, npml * th + 2)
        shape.append(rng.randint(nmin, max(nmin, 8 if thorough else 6)))
    c["faces"], c["shape"] = faces, shape
    c["widths"] = None
    if rng.chance(0.25):
        c["widths"] = [[50e-9 * rng.uniform(0.7, 1.5) for _ in range(n)] for n in shape]
    srcs = []
    for _ in range(rng.choice([1, 2, 2])):
        s = {"kind": rng.choice(SRC_KINDS), "axis": rng.randint(0, 2), "direction": rng.choice(["+", "-"]),
             "profile": rng.choice(["cw", "pulse"]), "switch": rng.choice(["default", "default", "start", "interval"]),
             "pol": rng.randint(0, 2)}
        s["pos"] = [int(rng.randint(_lo(faces, ax, th), n - 1 - _hi(faces, ax, th))) for ax, n in enumerate(shape)]
        srcs.append(s)
    c["sources"] = srcs
    dets = []
    for kind in ("field", "phasor", "energy", "poynting", "closed"):
        d = {"kind": kind, "exact": rng.chance(0.5), "switch": rng.choice(["default", "default", "interval"]),
             "reduce": rng.chance(0.4), "region": rng.choice(["full", "box"])}
        if kind == "energy":
            d["slices"] = (not d["reduce"]) and rng.chance(0.3)
        if kind == "poynting":
            d["axis"] = rng.randint(0, 2)
            d["coord"] = int(rng.randint(0, shape[d["axis"]] - 1))
            d["direction"] = rng.choice(["+", "-"])
            d["all"] = rng.chance(0.4)
        if kind in ("field", "phasor"):
            d["components"] = rng.choice([None, None, ["Ex", "Hz"], ["Ey", "Hx", "Hy"]])
        dets.append(d)
    c["detectors"] = dets
    c["steps"] = rng.randint(6, 12)
    c["gradient"] = rng.choice([None, None, "reversible"])
    c["eps_tier"] = rng.choice([1, 3])
    c["sig_e"] = rng.chance(0.35)
    sg = lambda: rng.choice([-1.0, 1.0])
    c["amps"] = {"alpha": sg() * rng.uniform(0.5, 2.0), "beta": sg() * rng.uniform(0.5, 2.0), "a": sg() * rng.uniform(0.3, 3.0),
                 "b": sg() * rng.uniform(0.3, 3.0), "c": sg() * rng.uniform(0.3, 3.0)}
    c["t"] = rng.randint(0, 4)
    c["seed"] = rng.np_seed()
    if force:
        c.update(force)
    return c


def _lo(faces, ax, th):
    return th if faces[Y.FACES[2 * ax]] == "pml" else 0


def _hi(faces, ax, th):
    return th if faces[Y.FACES[2 * ax + 1]] == "pml" else 0


# ------------------------------------------------------------------------------------------ scene
def _switch(f, name):
    return {"default": f.OnOffSwitch(), "start": f.OnOffSwitch(start_time=2.5e-16), "interval": f.OnOffSwitch(interval=2),
            "end": f.OnOffSwitch(end_time=4.5e-16), "window": f.OnOffSwitch(start_time=1.5e-16, end_time=5.5e-16),
            "fixed": f.OnOffSwitch(fixed_on_time_steps=[1, 2, 5, 6]), "off": f.OnOffSwitch(is_always_off=True)}[name]


def make_objects(c, vol, only=None, saf=1.0):
    """`saf`: static_amplitude_factor given to every source AT CONSTRUCTION (placement-time factor).
    sources (all, or only the indices in `only` — the others are really absent from the object list) + detectors"""
    j = Y.J()
    f, jnp = j["fdtdx"], j["jnp"]
    objs, cons = [], []
    wl = 4.0e-7
    wave = f.WaveCharacter(wavelength=wl)
    uniform = c["widths"] is None
    for i, s in enumerate(c["sources"]):
        if only is not None and i not in only:
            continue
        prof = f.SingleFrequencyProfile() if s["profile"] == "cw" else f.GaussianPulseProfile(
            spectral_width=f.WaveCharacter(wavelength=3 * wl), center_wave=wave)
        ax = s["axis"]
        if s["kind"] == "hard":
            from fdtdx.objects.sources.source import HardConstantAmplitudePlanceSource
            shp = [None, None, None]
            shp[ax] = 1
            pol = [0.0, 0.0, 0.0]
            pol[(ax + 1 + s["pol"] % 2) % 3] = 1.0
            o = HardConstantAmplitudePlanceSource(partial_grid_shape=tuple(shp), wave_character=wave, direction=s["direction"],
                                                  fixed_E_polarization_vector=tuple(pol), amplitude=0.8, switch=_switch(f, s["switch"]),
                                                  static_amplitude_factor=float(saf), name=f"src{i}")
            if uniform:
                cons.append(o.set_grid_coordinates(axes=ax, sides="-", coordinates=s["pos"][ax]))
            else:
                cons.append(o.place_at_center(vol, axes=(ax,)))
        elif s["kind"] in ("uniform", "gauss"):
            shp = [None, None, None]
            shp[ax] = 1
            pol = [0.0, 0.0, 0.0]
            pol[(ax + 1 + s["pol"] % 2) % 3] = 1.0
            kw = dict(partial_grid_shape=tuple(shp), wave_character=wave, direction=s["direction"],
                      fixed_E_polarization_vector=tuple(pol), temporal_profile=prof, switch=_switch(f, s["switch"]),
                      normalize_by_energy=bool(s.get("normalize", True)),
                      static_amplitude_factor=float(saf), name=f"src{i}")
            o = f.UniformPlaneSource(**kw) if s["kind"] == "uniform" else f.GaussianPlaneSource(radius=1.2e-7, **kw)
            if uniform:
                cons.append(o.set_grid_coordinates(axes=ax, sides="-", coordinates=s["pos"][ax]))
            else:
                cons.append(o.place_at_center(vol, axes=(ax,)))
        else:
            o = f.PointDipoleSource(partial_grid_shape=(1, 1, 1), wave_character=wave, polarization=s["pol"],
                                    source_type="electric" if s["kind"] == "dipole_e" else "magnetic",
                                    temporal_profile=prof, switch=_switch(f, s["switch"]), static_amplitude_factor=float(saf),
                                    azimuth_angle=float(s.get("azimuth", 0.0)), elevation_angle=float(s.get("elevation", 0.0)),
                                    name=f"src{i}")
            if uniform:
                cons.append(o.set_grid_coordinates(axes=(0, 1, 2), sides=("-", "-", "-"), coordinates=tuple(s["pos"])))
            else:
                cons.append(o.place_at_center(vol))
        objs.append(o)
    dsp = c.get("dispersive")
    if dsp:
        objs_d, cons_d = dispersive_block(f, vol, dsp)
        objs += objs_d
        cons += cons_d
    for i, d in enumerate(c["detectors"]):
        kw = dict(name=f"det{i}_{d['kind']}", exact_interpolation=d["exact"], switch=_switch(f, d["switch"]), plot=False)
        comp = {} if d.get("components") is None else {"components": tuple(d["components"])}
        if d["kind"] == "poynting":
            shp = [None, None, None]
            shp[d["axis"]] = 1
            o = f.PoyntingFluxDetector(dtype=jnp.float64, direction=d["direction"], reduce_volume=d["reduce"],
                                       keep_all_components=d["all"], partial_grid_shape=tuple(shp), **kw)
            if uniform:
                cons.append(o.set_grid_coordinates(axes=d["axis"], sides="-", coordinates=d["coord"]))
            else:
                cons.append(o.place_at_center(vol, axes=(d["axis"],)))
            objs.append(o)
            continue
        if d["region"] == "box":
            kw["partial_grid_shape"] = tuple(max(1, n - 2) for n in c["shape"])
        if d["kind"] == "closed":
            kw["partial_grid_shape"] = tuple(max(1, n - 2) for n in c["shape"])
            o = f.ClosedSurfacePoyntingFluxDetector(dtype=jnp.float64, orientation="inward" if d["reduce"] else "outward", **kw)
            cons.append(o.place_at_center(vol))
            objs.append(o)
            continue
        if d["kind"] == "field":
            o = f.FieldDetector(dtype=jnp.float64, reduce_volume=d["reduce"], **comp, **kw)
        elif d["kind"] == "phasor":
            o = f.PhasorDetector(dtype=jnp.complex128, reduce_volume=d["reduce"], wave_characters=(wave, f.WaveCharacter(wavelength=2.5 * wl)),
                                 **comp, **kw)
        else:
            o = f.EnergyDetector(dtype=jnp.float64, reduce_volume=d["reduce"], as_slices=bool(d.get("slices")), **kw)
        if d["region"] == "box":
            cons.append(o.place_at_center(vol))
        else:
            cons += list(o.same_position_and_size(vol))
        objs.append(o)
    return objs, cons


def dispersive_material(f, dsp):
    """Material with a Lorentz / Drude pole (isotropic, per-axis or oriented) — public API only"""
    kind = dsp.get("kind", "lorentz")
    if kind == "none":
        # non-dispersive (optionally conductive / magnetic) material
        mkw = {}
        if dsp.get("sigma"):
            mkw["electric_conductivity"] = float(dsp["sigma"])
        if dsp.get("mu"):
            mkw["permeability"] = float(dsp["mu"])
        return f.Material(permittivity=float(dsp.get("eps_inf", 2.0)), **mkw)
    orient = dsp.get("orientation")
    okw = {} if orient is None else {"orientation": tuple(float(x) for x in orient)}
    if kind == "drude":
        pole = f.DrudePole(plasma_frequency=float(dsp.get("wp", 4.0e15)), damping=float(dsp.get("gamma", 1.0e14)), **okw)
    else:
        pole = f.LorentzPole(resonance_frequency=float(dsp.get("w0", 6.0e15)), damping=float(dsp.get("gamma", 1.0e14)),
                             delta_epsilon=float(dsp.get("de", 1.5)), **okw)
    mkw = {}
    if dsp.get("sigma"):
        mkw["electric_conductivity"] = float(dsp["sigma"])
    return f.Material(permittivity=float(dsp.get("eps_inf", 2.0)), dispersion=f.DispersionModel(poles=(pole,)), **mkw)


def dispersive_block(f, vol, dsp):
    o = f.UniformMaterialObject(partial_grid_shape=tuple(int(x) for x in dsp["size"]), material=dispersive_material(f, dsp), name="dispblock")
    con = o.set_grid_coordinates(axes=(0, 1, 2), sides=("-", "-", "-"), coordinates=tuple(int(x) for x in dsp["pos"]))
    return [o], [con]


def _dt(c):
    """time step duration of the scene's grid (throw-away config)"""
    j = Y.J()
    f, jnp = j["fdtdx"], j["jnp"]
    if c["widths"] is None:
        grid = f.UniformGrid(spacing=50e-9)
    else:
        edges = [np.concatenate([[0.0], np.cumsum(np.asarray(w, dtype=np.float64))]) for w in c["widths"]]
        grid = f.RectilinearGrid(x_edges=jnp.asarray(edges[0]), y_edges=jnp.asarray(edges[1]), z_edges=jnp.asarray(edges[2]))
    cfg = f.SimulationConfig(time=1e-15, grid=grid, dtype=jnp.float64, backend="cpu", courant_factor=0.99)
    try:
        return float(cfg.time_step_duration)
    except Exception:
        return None


def scene_of(c, complex_fields=None, only=None, saf=1.0):
    dt = _dt(c)
    time = (c["steps"] + 0.01) * dt if dt else 1e-15
    sc = Y.build(c["shape"], c["faces"], widths=c["widths"], pml_thickness=c["pml_thickness"], time=time,
                 gradient=c["gradient"], extra_fn=lambda vol: make_objects(c, vol, only, saf), complex_fields=complex_fields,
                 bloch_vector=tuple(c.get("bloch_vector") or (0.0, 0.0, 0.0)))
    return sc


def with_amps(sc, amps):
    """objects with the sources' static_amplitude_factor replaced (placed state of the sources is kept)"""
    new = []
    for s in sc.objects.sources:
        idx = int(s.name[3:])
        new.append(s.aset("static_amplitude_factor", float(amps[idx])))
    return sc.objects.replace_sources(new)


def materials(c, sc):
    r = np.random.default_rng(c["seed"])
    nx, ny, nz = c["shape"]
    inv_eps = r.uniform(0.3, 1.0, (c["eps_tier"], nx, ny, nz))
    sig_e = r.uniform(0.0, 0.02, (c["eps_tier"], nx, ny, nz)) * (r.random((c["eps_tier"], nx, ny, nz)) < 0.7) if c["sig_e"] else None
    return inv_eps, sig_e, r


def _rel(x, ref, scale):
    x, ref = np.asarray(x), np.asarray(ref)
    if x.shape != ref.shape:
        return float("inf")
    if x.size == 0:
        return 0.0
    if not (np.all(np.isfinite(x)) and np.all(np.isfinite(ref))):
        return float("inf")
    return float(np.max(np.abs(x - ref))) / max(scale, 1e-300)


def _mx(x):
    x = np.asarray(x)
    return float(np.max(np.abs(x))) if x.size else 0.0


# ------------------------------------------------------------------------------------------ property oracle
def run_oracle(c, sc=None, info=None):
    """the property on the real code through run_fdtd; returns a detail string when it fails, None when it holds"""
    j = Y.J()
    f, jax = j["fdtdx"], j["jax"]
    sc = sc or scene_of(c)
    inv_eps, sig_e, _ = materials(c, sc)
    arrays = Y.with_state(sc, inv_eps=inv_eps, sig_e=sig_e)
    A = c["amps"]
    two = len(c["sources"]) == 2

    def run(amps):
        st = f.run_fdtd(arrays=arrays, objects=with_amps(sc, amps), config=sc.config, key=jax.random.PRNGKey(0), show_progress=False)
        out = {"E": np.asarray(st[1].fields.E), "H": np.asarray(st[1].fields.H), "t": int(st[0])}
        out["det"] = {k: {kk: np.asarray(vv) for kk, vv in v.items()} for k, v in st[1].detector_states.items()}
        return out

    if two:
        R1, R2 = run([A["alpha"], 0.0]), run([0.0, A["beta"]])
        R3 = run([A["a"] * A["alpha"], A["b"] * A["beta"]])
        R4 = run([A["c"] * A["a"] * A["alpha"], A["c"] * A["b"] * A["beta"]])
        a, b, cc = A["a"], A["b"], A["c"]
    else:
        R1 = run([A["alpha"]])
        R3 = run([A["a"] * A["alpha"]])
        R2 = {"E": 0 * R1["E"], "H": 0 * R1["H"], "det": {k: {kk: 0 * vv for kk, vv in v.items()} for k, v in R1["det"].items()}}
        a, b, cc = A["a"], 0.0, A["a"]
        R4, R3q = R3, R1      # quadratic records: R3 = a * R1  =>  a^2
    if info is not None:
        info["on1"] = _mx(R1["E"]) > 0 or _mx(R1["H"]) > 0
        info["on2"] = (not two) or _mx(R2["E"]) > 0 or _mx(R2["H"]) > 0
        info["steps_run"] = R3.get("t")
    if R3.get("t") != c["steps"] and _dt(c):
        return f"run_fdtd ended at step {R3.get('t')} instead of {c['steps']}"
    for nm in ("E", "H"):
        ref = a * R1[nm] + b * R2[nm]
        e = _rel(R3[nm], ref, max(abs(a) * _mx(R1[nm]), abs(b) * _mx(R2[nm])))
        if not e <= TOL:
            return f"final {nm} of the combined run differs from a*run1 + b*run2 by {e:.3e} (relative)"
    for name, st in R3["det"].items():
        kind = name.split("_")[1]
        for key, v3 in st.items():
            if kind in ("field", "phasor"):
                v1, v2 = R1["det"][name][key], R2["det"][name][key]
                e = _rel(v3, a * v1 + b * v2, max(abs(a) * _mx(v1), abs(b) * _mx(v2)))
                if not e <= TOL:
                    return f"{kind} record {name}/{key} of the combined run differs from a*rec1 + b*rec2 by {e:.3e} (relative)"
            else:
                base = (R3q if not two else R3)["det"][name][key]
                v4 = R4["det"][name][key]
                e = _rel(v4, cc * cc * base, cc * cc * _mx(base))
                if not e <= TOL:
                    return f"{kind} record {name}/{key} does not scale with the square of the common factor {cc}: {e:.3e} (relative)"
    return None


def removal_scenes(c):
    """separate placements: each source alone (really the only source in the object list), then all together"""
    n = len(c["sources"])
    return [scene_of(c, only=[i]) for i in range(n)] + [scene_of(c, only=list(range(n)))]


def removal_oracle(c, scenes=None, info=None):
    """superposition across SEPARATE placements: each source alone, and all sources together (a source is really absent
    from the object list, not just scaled to zero); fields and linear records of the joint run = sum of the partial runs"""
    j = Y.J()
    f, jax = j["fdtdx"], j["jax"]
    scs = scenes or removal_scenes(c)
    amps = c["amp2"]
    inv_eps, sig_e, _ = materials(c, scs[0])
    R = []
    for sc in scs:
        arrays = Y.with_state(sc, inv_eps=inv_eps, sig_e=sig_e)
        st = f.run_fdtd(arrays=arrays, objects=with_amps(sc, amps), config=sc.config, key=jax.random.PRNGKey(0), show_progress=False)
        R.append({"E": np.asarray(st[1].fields.E), "H": np.asarray(st[1].fields.H),
                  "det": {k: {kk: np.asarray(vv) for kk, vv in v.items()} for k, v in st[1].detector_states.items()}})
    parts, RAB = R[:-1], R[-1]
    if info is not None:
        info["on"] = [bool(_mx(r["E"]) > 0 or _mx(r["H"]) > 0) for r in parts]
        # does the field of another source reach the cell of the tilted dipole?
        ti = c.get("tilted_idx", 0)
        p = tuple(c["sources"][ti]["pos"])
        info["reaches"] = any(bool(np.any(r["H"][(slice(None),) + p] != 0) or np.any(r["E"][(slice(None),) + p] != 0))
                              for i, r in enumerate(parts) if i != ti)
        on_lists = [np.asarray(sc.objects.sources[0]._is_on_at_time_step_arr) for sc in scs[:-1]]
        info["some_source_off_during_run"] = any(not bool(np.all(o)) for o in on_lists)
    for nm in ("E", "H"):
        ref = sum(r[nm] for r in parts)
        e = _rel(RAB[nm], ref, max(_mx(r[nm]) for r in parts))
        if not e <= TOL:
            return (f"final {nm} with all {len(parts)} sources placed differs from the sum of the single-source runs by {e:.3e} "
                    f"(relative; separate placements; switches {[s['switch'] for s in c['sources']]})")
    for name, st in RAB["det"].items():
        if name.split("_")[1] not in ("field", "phasor"):
            continue
        for key, v in st.items():
            vs = [r["det"][name][key] for r in parts]
            e = _rel(v, sum(vs), max(_mx(x) for x in vs))
            if not e <= TOL:
                return f"record {name}/{key} with all sources placed differs from the sum of the single-source runs by {e:.3e}"
    return None


def joint_forward_vs_model(ctx, c, scs):
    """forward() on the placement with ALL sources, from a non-zero state, at a step where a gated source is off and at a
    step where every source is on, vs the model fed with the SUM of the per-source terms, each probed on the placement
    that contains only that source"""
    inv_eps, sig_e, r = materials(c, scs[0])
    n3 = (3,) + tuple(c["shape"])
    joint = scs[-1]
    on = np.array([np.asarray(sc.objects.sources[0]._is_on_at_time_step_arr) for sc in scs[:-1]])    # (n_src, T)
    T = on.shape[1]
    t_mixed = [t for t in range(T) if on[:, t].any() and not on[:, t].all()]
    t_all = [t for t in range(T) if on[:, t].all()]
    steps = ([t_mixed[len(t_mixed) // 2]] if t_mixed else []) + ([t_all[len(t_all) // 2]] if t_all else [min(c["t"], T - 1)])
    inv_mu = np.asarray(joint.arrays.inv_permeabilities, dtype=np.float64)
    for t in steps:
        E0, H0 = r.standard_normal(n3), r.standard_normal(n3)
        jE, jH = np.zeros(n3), np.zeros(n3)
        for sc in scs[:-1]:
            a, b = probe_sources(sc, with_amps(sc, c["amp2"]), t, inv_eps, sig_e, c["shape"])
            jE, jH = jE + a, jH + b
        iE, iH = _fwd(joint, with_amps(joint, c["amp2"]), Y.with_state(joint, E0, H0, inv_eps=inv_eps, sig_e=sig_e), t, 1, sim=False)
        line = Y.request(joint, "fwd", E0, H0, inv_eps, inv_mu, sig_e, None, (jE, jH), 1)
        mE, mH = Y.decode_fields(ctx.driver.ask(line), c["shape"])
        ctx.expect_close(f"forward() with all sources vs model with the summed per-source terms (step {t}, on={on[:, t].tolist()})", c,
                         np.concatenate([iE.ravel(), iH.ravel()]), np.concatenate([mE.ravel(), mH.ravel()]))
    return len(t_mixed) > 0


def single_source_increment(ctx, c, sc):
    """the tilted dipole alone, non-zero initial field: forward() must equal (source-free step of the state) + (term
    probed on zero fields) — compared with the model; returns an implementation-side detail as well"""
    inv_eps, sig_e, r = materials(c, sc)
    n3 = (3,) + tuple(c["shape"])
    E0, H0 = r.standard_normal(n3), r.standard_normal(n3)
    t = min(c["t"], c["steps"] - 1)
    objs = with_amps(sc, c["amp2"])
    jE, jH = probe_sources(sc, objs, t, inv_eps, sig_e, c["shape"])
    iE, iH = _fwd(sc, objs, Y.with_state(sc, E0, H0, inv_eps=inv_eps, sig_e=sig_e), t, 1, sim=False)
    inv_mu = np.asarray(sc.arrays.inv_permeabilities, dtype=np.float64)
    line = Y.request(sc, "fwd", E0, H0, inv_eps, inv_mu, sig_e, None, (jE, jH), 1)
    mE, mH = Y.decode_fields(ctx.driver.ask(line), c["shape"])
    ctx.expect_close("forward from a non-zero state with the tilted dipole alone", c, np.concatenate([iE.ravel(), iH.ravel()]),
                     np.concatenate([mE.ravel(), mH.ravel()]))
    # implementation only: the increment does not depend on the field
    zE, zH = _fwd(sc, with_amps(sc, [0.0] * len(c["sources"])), Y.with_state(sc, E0, H0, inv_eps=inv_eps, sig_e=sig_e), t, 1, sim=False)
    # (H is only comparable when nothing was injected into E: the E increment also changes H through the curl)
    for nm, got, free, jj in ((("E", iE, zE, jE),) + ((("H", iH, zH, jH),) if _mx(jE) == 0 else ())):
        # relative to the field scale: got - free cancels O(1) fields, so a tiny increment carries their round-off
        e = _rel(got - free, jj, max(_mx(jj), _mx(got)))
        if not e <= TOL:
            return f"increment injected into {nm} by the dipole at t={t} depends on the field (differs from the increment on zero fields by {e:.3e})"
    return None


def gen_removal_case(rng, thorough, which, force=None):
    """tilted (azimuth, elevation != 0) magnetic / electric dipole + a second source next to it"""
    c = gen_case(rng, thorough)
    n = int(rng.randint(5, 6))
    c["mode"] = "removal"
    c["shape"], c["widths"], c["pml_thickness"] = [n, n, n], None, 2
    ax_p = int(rng.randint(0, 2))
    faces = {}
    for ax in range(3):
        kind = rng.choice(["periodic", "pec", "none", "pmc"]) if ax != ax_p else "periodic"
        faces[Y.FACES[2 * ax]] = faces[Y.FACES[2 * ax + 1]] = kind
    c["faces"] = faces
    pos = [int(rng.randint(1, n - 2)) for _ in range(3)]
    tilted = {"kind": "dipole_m" if which == "m" else "dipole_e", "axis": 0, "direction": "+", "profile": rng.choice(["cw", "pulse"]),
              "switch": "default", "pol": int(rng.randint(0, 2)), "pos": pos,
              "azimuth": rng.choice([-1.0, 1.0]) * rng.uniform(15.0, 70.0), "elevation": rng.choice([-1.0, 1.0]) * rng.uniform(10.0, 60.0)}
    second_kind = rng.choice(["dipole_e", "dipole_m", "uniform"]) if thorough else ("dipole_e" if which == "m" else "uniform")
    ax2 = int(rng.randint(0, 2))
    pos2 = list(pos)
    pos2[ax2] = pos[ax2] + (1 if pos[ax2] + 1 <= n - 2 else -1)
    second = {"kind": second_kind, "axis": ax2, "direction": rng.choice(["+", "-"]), "profile": "cw", "switch": "default",
              "pol": int(rng.randint(0, 2)), "pos": pos2}
    gated = ["interval", "fixed", "window", "end", "start"]
    if not thorough:
        # quick: "m": always-on tilted dipole FIRST, gated neighbour later in the list; "e": gated tilted dipole first
        if which == "m":
            second["switch"] = rng.choice(["interval", "fixed", "window", "end"])
            srcs, ti = [tilted, second], 0
        else:
            tilted["switch"] = rng.choice(["start", "window", "interval"])
            srcs, ti = [tilted, second], 0
    else:
        srcs = [tilted, second]
        if rng.chance(0.6):
            ax3 = (ax2 + 1) % 3
            pos3 = list(pos)
            pos3[ax3] = pos[ax3] + (1 if pos[ax3] + 1 <= n - 2 else -1)
            srcs.append({"kind": rng.choice(["dipole_e", "dipole_m", "gauss"]), "axis": ax3, "direction": rng.choice(["+", "-"]),
                         "profile": rng.choice(["cw", "pulse"]), "switch": "default", "pol": int(rng.randint(0, 2)), "pos": pos3})
        sw = [rng.choice(gated + ["off", "default"]) for _ in srcs]
        sw[int(rng.randint(0, len(srcs) - 1))] = "default"                     # at least one always-on source
        if all(x == "default" for x in sw):
            sw[int(rng.randint(0, len(srcs) - 1))] = rng.choice(gated)         # … and at least one gated one
        for sdict, x in zip(srcs, sw):
            sdict["switch"] = x
        order = rng.shuffle(list(range(len(srcs))))                             # every order of the list
        srcs = [srcs[i] for i in order]
        ti = order.index(0)
    c["sources"], c["tilted_idx"] = srcs, ti
    c["detectors"] = [{"kind": "field", "exact": False, "switch": "default", "reduce": False, "region": "full", "components": None},
                      {"kind": "phasor", "exact": True, "switch": "default", "reduce": False, "region": "full", "components": ["Hx", "Hy", "Hz"]}]
    c["steps"] = int(rng.randint(7, 9))
    c["gradient"] = None
    c["amp2"] = [rng.choice([-1.0, 1.0]) * rng.uniform(0.5, 2.0) for _ in srcs]
    if force:
        c.update(force)
    return c


# ---------------------------------------------------------------- factor given at PLACEMENT (separate placements)
def placed_forced(seed, k=0):
    """plane sources whose static_amplitude_factor is set at construction: UniformPlaneSource without energy normalisation,
    GaussianPlaneSource without energy normalisation, UniformPlaneSource with the default normalisation; the whole scene
    is placed at the common factor f0 (negative for odd seed + k), at -f0 and at 2 f0"""
    f0 = [0.8, -1.3, 1.7, -0.6][(seed + k) % 4]
    ax = (seed + k) % 3
    a1, a2 = (ax + 1) % 3, (ax + 2) % 3
    shape = [5, 5, 5]
    shape[ax] = 8
    faces = {}
    for a in range(3):
        faces[Y.FACES[2 * a]] = faces[Y.FACES[2 * a + 1]] = "pml" if a == ax else "periodic"
    def pos(a, v):
        p = [2, 2, 2]
        p[a] = v
        return p
    srcs = [{"kind": "uniform", "axis": ax, "direction": "+", "profile": "cw", "switch": "default", "pol": seed % 2, "pos": pos(ax, 2), "normalize": False},
            {"kind": "gauss", "axis": ax, "direction": "-", "profile": "pulse", "switch": "default", "pol": (seed + 1) % 2, "pos": pos(ax, 5), "normalize": False},
            {"kind": "uniform", "axis": a1, "direction": "-" if k % 2 else "+", "profile": "cw", "switch": "default", "pol": 0, "pos": pos(a1, 1), "normalize": True}]
    dets = [{"kind": "field", "exact": False, "switch": "default", "reduce": False, "region": "full", "components": None},
            {"kind": "phasor", "exact": True, "switch": "default", "reduce": True, "region": "full", "components": None},
            {"kind": "energy", "exact": True, "switch": "default", "reduce": True, "region": "full", "slices": False}]
    return dict(mode="placed", shape=shape, faces=faces, pml_thickness=2, widths=None, sources=srcs, detectors=dets, steps=8, gradient=None,
                eps_tier=1, sig_e=False, f0=f0, dispersive=None)


def placed_oracle(c, info=None):
    """exact linearity (including the sign) in a factor that is given to the sources at construction"""
    j = Y.J()
    f, jax = j["fdtdx"], j["jax"]
    R = []
    for mult in (1.0, -1.0, 2.0):
        sc = scene_of(c, saf=mult * c["f0"])
        inv_eps, sig_e, _ = materials(c, sc)
        arrays = Y.with_state(sc, inv_eps=inv_eps, sig_e=sig_e)
        st = f.run_fdtd(arrays=arrays, objects=sc.objects, config=sc.config, key=jax.random.PRNGKey(0), show_progress=False)
        R.append({"E": np.asarray(st[1].fields.E), "H": np.asarray(st[1].fields.H),
                  "det": {k: {kk: np.asarray(vv) for kk, vv in v.items()} for k, v in st[1].detector_states.items()}})
    R1, Rm, R2 = R
    if info is not None:
        info["on"] = _mx(R1["E"]) > 0
    for nm in ("E", "H"):
        for mult, Rx in ((-1.0, Rm), (2.0, R2)):
            e = _rel(Rx[nm], mult * R1[nm], abs(mult) * _mx(R1[nm]))
            if not e <= TOL:
                return (f"final {nm} of the scene placed with static_amplitude_factor {mult}*{c['f0']} differs from {mult} x the scene placed "
                        f"with {c['f0']} by {e:.3e} (relative)")
    for name, st in R1["det"].items():
        kind = name.split("_")[1]
        for key, v1 in st.items():
            for mult, Rx in ((-1.0, Rm), (2.0, R2)):
                fac = mult if kind in ("field", "phasor") else mult * mult
                e = _rel(Rx["det"][name][key], fac * v1, abs(fac) * _mx(v1))
                if not e <= TOL:
                    return f"{kind} record {name}/{key} placed with factor {mult}*{c['f0']} is not {fac} x the record placed with {c['f0']}: {e:.3e}"
    return None


def one_placed_case(ctx, c, sample=False):
    info = {}
    d = placed_oracle(c, info)
    ctx.impl_property_evals += 1
    ctx.case(sample={k: c[k] for k in ("mode", "shape", "faces", "sources", "f0", "seed")} if sample else None,
             nontrivial=("placed", tuple(c["shape"]), c["seed"]) if info.get("on") else None, mode="placed-factor",
             f0_sign="negative" if c["f0"] < 0 else "positive", unnormalised_plane_sources=sum(1 for s in c["sources"] if not s.get("normalize", True)))
    if d:
        ctx.violation(c, d)


def one_removal_case(ctx, c, sample=False):
    scs = removal_scenes(c)
    info = {}
    d0 = removal_oracle(c, scs, info)
    ti = c.get("tilted_idx", 0)
    d1 = single_source_increment(ctx, c, scs[ti])
    mixed = joint_forward_vs_model(ctx, c, scs)
    nt = (tuple(c["shape"]), c["seed"]) if sum(info.get("on", [])) >= 2 and info.get("reaches") else None
    sw = [s["switch"] for s in c["sources"]]
    first_gated = next((i for i, x in enumerate(sw) if x != "default"), None)
    ctx.case(sample={k: c[k] for k in ("mode", "shape", "faces", "sources", "steps", "amp2", "seed")} if sample else None, nontrivial=nt,
             mode="removal", n_removal_sources=len(sw), tilted=c["sources"][ti]["kind"], second_reaches_dipole_cell=bool(info.get("reaches")),
             always_on_before_gated=bool(first_gated is not None and any(x == "default" for x in sw[:first_gated])),
             gated_source_off_at_some_step=bool(info.get("some_source_off_during_run")), forward_checked_at_mixed_step=bool(mixed),
             **{"rsw_" + x: True for x in sw})
    ctx.impl_property_evals += 2
    for d in (d0, d1):
        if d:
            ctx.violation(c, d)
            break


# ------------------------------------------------------------------------------------------ eager forward pieces
def _fwd(sc, objs, arrays, t, n, sim=True):
    j = Y.J()
    st = (j["jnp"].asarray(t, dtype=j["jnp"].int32), arrays)
    for _ in range(n):
        st = j["forward"](st, sc.config, objs, key=j["jax"].random.PRNGKey(0), record_detectors=False, record_boundaries=False,
                          simulate_boundaries=sim)
    return np.asarray(st[1].fields.E), np.asarray(st[1].fields.H)


def _fwd_full(sc, objs, arrays, t, n, sim=True):
    """like _fwd, also returns the psi dictionaries of the PML objects"""
    j = Y.J()
    st = (j["jnp"].asarray(t, dtype=j["jnp"].int32), arrays)
    for _ in range(n):
        st = j["forward"](st, sc.config, objs, key=j["jax"].random.PRNGKey(0), record_detectors=False, record_boundaries=False,
                          simulate_boundaries=sim)
    f = st[1].fields
    return np.asarray(f.E), np.asarray(f.H), f.psi_E, f.psi_H


def _psi_lin(a, p1, b, p2):
    jnp = Y.J()["jnp"]
    return {k: tuple(jnp.asarray(a * np.asarray(x) + b * np.asarray(y)) for x, y in zip(p1[k], p2[k])) for k in p1}


def forward_superposition(c, sc):
    """forward() with active PML, 2 steps, random initial fields AND random psi arrays of every PML: the whole state
    (E, H, psi_E, psi_H) superposes; returns (detail or None, data for the model part)"""
    from . import cpml_api as P
    A = c["amps"]
    inv_eps, sig_e, r = materials(c, sc)
    n3 = (3,) + tuple(c["shape"])
    s1 = (r.standard_normal(n3), r.standard_normal(n3))
    s2 = (r.standard_normal(n3), r.standard_normal(n3))
    q1, q2 = P.random_psi(sc, r), P.random_psi(sc, r)
    a, b = A["a"], A["b"]
    two = len(c["sources"]) == 2
    am1 = [A["alpha"], 0.0] if two else [A["alpha"]]
    am2 = [0.0, A["beta"]] if two else [0.0]
    am3 = [a * A["alpha"], b * A["beta"]] if two else [a * A["alpha"]]
    s3 = (a * s1[0] + b * s2[0], a * s1[1] + b * s2[1])
    q3 = (_psi_lin(a, q1[0], b, q2[0]), _psi_lin(a, q1[1], b, q2[1]))
    t = min(c["t"], c["steps"] - 2)
    outs = []
    for am, s, q in ((am1, s1, q1), (am2, s2, q2), (am3, s3, q3)):
        arr = P.with_psi(Y.with_state(sc, s[0], s[1], inv_eps=inv_eps, sig_e=sig_e), q[0], q[1])
        outs.append(_fwd_full(sc, with_amps(sc, am), arr, t, 2, sim=True))
    detail = None
    for k, nm in ((0, "E"), (1, "H")):
        ref = a * outs[0][k] + b * outs[1][k]
        e = _rel(outs[2][k], ref, max(abs(a) * _mx(outs[0][k]), abs(b) * _mx(outs[1][k])))
        if not e <= TOL:
            detail = f"forward() x2 at t={t}: {nm}(a*s1 + b*s2; a*src1 + b*src2) differs from a*{nm}(s1;src1) + b*{nm}(s2;src2) by {e:.3e}"
            break
    if detail is None:
        for k, nm in ((2, "psi_E"), (3, "psi_H")):
            for name in outs[2][k]:
                for idx in (0, 1):
                    x1, x2, x3 = (np.asarray(o[k][name][idx]) for o in outs)
                    e = _rel(x3, a * x1 + b * x2, max(abs(a) * _mx(x1), abs(b) * _mx(x2)))
                    if not e <= TOL:
                        detail = f"forward() x2 at t={t}: {nm}[{name}][{idx}] of the combined state differs from a*psi1 + b*psi2 by {e:.3e}"
    return detail, dict(s3=s3, q3=q3, am=(am1, am2, am3), t=t, inv_eps=inv_eps, sig_e=sig_e, a=a, b=b)


def pml_model_part(ctx, c, sc, d):
    """forward() with ACTIVE PML (simulate_boundaries=True) from a non-zero state with non-zero psi and real sources vs
    the CPML model `pmlfwd` (Cpml.forwardP — the definition the whole-loop linearity theorems are about)"""
    from . import cpml_api as P
    if not P.pml_list(sc):
        return 0
    t, inv_eps, sig_e = d["t"], d["inv_eps"], d["sig_e"]
    objs = with_amps(sc, d["am"][2])
    jE, jH = probe_sources(sc, objs, t, inv_eps, sig_e, c["shape"])
    E3, H3 = d["s3"]
    qE, qH = d["q3"]
    arr = P.with_psi(Y.with_state(sc, E3, H3, inv_eps=inv_eps, sig_e=sig_e), qE, qH)
    iE, iH, pE, pH = _fwd_full(sc, objs, arr, t, 1, sim=True)
    inv_mu = np.asarray(sc.arrays.inv_permeabilities, dtype=np.float64)
    tail = Y.request(sc, "x", E3, H3, inv_eps, inv_mu, sig_e, None, (jE, jH), 1).split(" ", 2)[2]
    line = " ".join(["pmlfwd", "1"] + P.pmls_tokens(sc, qE, qH)) + " " + tail
    (mE, mH), mpsi = P.decode(ctx.driver.ask(line), sc, 2, 4)
    ctx.expect_close("forward() with active PML vs pmlfwd (fields)", c, np.concatenate([iE.ravel(), iH.ravel()]),
                     np.concatenate([mE.ravel(), mH.ravel()]))
    ipsi = np.concatenate([np.concatenate([np.asarray(pE[p.name][0]).ravel(), np.asarray(pE[p.name][1]).ravel(),
                                           np.asarray(pH[p.name][0]).ravel(), np.asarray(pH[p.name][1]).ravel()]) for p in P.pml_list(sc)])
    mps = np.concatenate([np.concatenate([x.ravel() for x in mpsi[p.name]]) for p in P.pml_list(sc)])
    ctx.expect_close("forward() with active PML vs pmlfwd (psi)", c, ipsi, mps)
    return len(P.pml_list(sc))


# ------------------------------------------------------------------------------------------ full 3x3 tensors
def gen_aniso_case(rng, thorough):
    c = {"mode": "aniso", "shape": [int(rng.randint(3, 4)) for _ in range(3)]}
    faces = {}
    for ax in range(3):
        lo, hi = rng.choice([("periodic", "periodic"), ("pec", "pec"), ("none", "none"), ("pmc", "pec"), ("periodic", "periodic")])
        faces[Y.FACES[2 * ax]], faces[Y.FACES[2 * ax + 1]] = lo, hi
    c["faces"] = faces
    c["widths"] = [[50e-9 * rng.uniform(0.7, 1.5) for _ in range(n)] for n in c["shape"]] if rng.chance(0.4) else None
    c["eps_tier"] = rng.choice([9, 9, 3])
    c["mu_tier"] = 9 if c["eps_tier"] != 9 else rng.choice([0, 3, 9])
    c["sig_e_tier"] = rng.choice([None, 9, 3])
    c["sig_h_tier"] = rng.choice([None, None, 9])
    c["a"], c["b"] = rng.choice([-1.0, 1.0]) * rng.uniform(0.3, 3.0), rng.choice([-1.0, 1.0]) * rng.uniform(0.3, 3.0)
    c["seed"] = rng.np_seed()
    return c


def aniso_eval(c):
    """forward() with full 3x3 material tensors from s1, s2 and a*s1 + b*s2 (source-free): superposition on the real
    code; returns (detail, data for the model comparison)"""
    from .yee_aniso_api import spd_tensor
    sc = Y.build(c["shape"], c["faces"], widths=c["widths"], gradient=None)
    r = np.random.default_rng(c["seed"])
    shp = tuple(c["shape"])
    n3 = (3,) + shp

    def tens(tier, lo, hi, scale=1.0):
        if tier is None:
            return None
        if tier == 0:
            return float(r.uniform(lo, hi))
        if tier == 9:
            return scale * spd_tensor(r, shp)
        return scale * r.uniform(lo, hi, (tier,) + shp)
    inv_eps, inv_mu = tens(c["eps_tier"], 0.1, 1.0), tens(c["mu_tier"], 0.3, 1.0)
    sig_e, sig_h = tens(c["sig_e_tier"], 0.2, 1.0, 2e-3), tens(c["sig_h_tier"], 0.2, 1.0, 4e2)
    s1 = (r.standard_normal(n3), r.standard_normal(n3))
    s2 = (r.standard_normal(n3), r.standard_normal(n3))
    a, b = c["a"], c["b"]
    s3 = (a * s1[0] + b * s2[0], a * s1[1] + b * s2[1])
    outs = []
    for s in (s1, s2, s3):
        st = Y.impl_forward(sc, Y.with_state(sc, s[0], s[1], inv_eps, inv_mu, sig_e, sig_h), t=0, n=2)
        outs.append((np.asarray(st[1].fields.E), np.asarray(st[1].fields.H)))
    detail = None
    for k, nm in ((0, "E"), (1, "H")):
        e = _rel(outs[2][k], a * outs[0][k] + b * outs[1][k], max(abs(a) * _mx(outs[0][k]), abs(b) * _mx(outs[1][k])))
        if not e <= TOL:
            detail = f"full-tensor materials: {nm} after 2 forward() steps from a*s1 + b*s2 differs from a*{nm}(s1) + b*{nm}(s2) by {e:.3e}"
            break
    return detail, (sc, s3, outs[2], (inv_eps, inv_mu, sig_e, sig_h))


def one_aniso_case(ctx, c):
    from .yee_aniso_api import request_aniso
    detail, (sc, s3, out3, mats) = aniso_eval(c)
    line = request_aniso(sc, "afwd", s3[0], s3[1], mats[0], mats[1], mats[2], mats[3], None, 2)
    mE, mH = Y.decode_fields(ctx.driver.ask(line), c["shape"])
    ctx.expect_close("forward() x2 with full tensors vs afwd", c, np.concatenate([out3[0].ravel(), out3[1].ravel()]),
                     np.concatenate([mE.ravel(), mH.ravel()]))
    ctx.impl_property_evals += 1
    ctx.case(nontrivial=("aniso", tuple(c["shape"]), c["seed"]), mode="full-tensor", aniso_eps_tier=c["eps_tier"], aniso_mu_tier=c["mu_tier"],
             aniso_sig_e=str(c["sig_e_tier"]), aniso_sig_h=str(c["sig_h_tier"]), aniso_grid="nonuniform" if c["widths"] else "uniform")
    if detail:
        ctx.violation(c, detail)


def probe_sources(sc, objs, t, inv_eps, sig_e, shape):
    from fdtdx.fdtd.update import update_E, update_H
    jnp = Y.J()["jnp"]
    z = np.zeros((3,) + tuple(shape))
    zero = Y.with_state(sc, z, z, inv_eps=inv_eps, sig_e=sig_e)
    tt = jnp.asarray(t, dtype=jnp.int32)
    jE = np.asarray(update_E(tt, zero, objs, sc.config, False).fields.E)
    jH = np.asarray(update_H(tt, zero, objs, sc.config, False).fields.H)
    return jE, jH


def model_part(ctx, c, sc, d):
    """(2) probes linear in the factors, (3) forward() vs model, (4) record expressions vs model"""
    t, inv_eps, sig_e, a, b = d["t"], d["inv_eps"], d["sig_e"], d["a"], d["b"]
    pr = [probe_sources(sc, with_amps(sc, am), t, inv_eps, sig_e, c["shape"]) for am in d["am"]]
    detail = None
    for k, nm in ((0, "jE"), (1, "jH")):
        ref = a * pr[0][k] + b * pr[1][k]
        e = _rel(pr[2][k], ref, max(abs(a) * _mx(pr[0][k]), abs(b) * _mx(pr[1][k])))
        if not e <= TOL:
            detail = f"injected source term {nm} at t={t} is not linear in static_amplitude_factor: {e:.3e}"
    jE, jH = pr[2]
    E3, H3 = d["s3"]
    arr = Y.with_state(sc, E3, H3, inv_eps=inv_eps, sig_e=sig_e)
    iE, iH = _fwd(sc, with_amps(sc, d["am"][2]), arr, t, 1, sim=False)
    inv_mu = np.asarray(sc.arrays.inv_permeabilities, dtype=np.float64)
    line = Y.request(sc, "fwd", E3, H3, inv_eps, inv_mu, sig_e, None, (jE, jH), 1)
    mE, mH = Y.decode_fields(ctx.driver.ask(line), c["shape"])
    ctx.expect_close("forward+sources from a*s1+b*s2", c, np.concatenate([iE.ravel(), iH.ravel()]), np.concatenate([mE.ravel(), mH.ravel()]))
    # record expressions
    from fdtdx.core.physics.metrics import compute_energy, compute_poynting_flux
    jnp = Y.J()["jnp"]
    n3 = (3,) + tuple(c["shape"])
    ie3 = np.broadcast_to(inv_eps, n3)
    im3 = np.broadcast_to(inv_mu, n3) if inv_mu.ndim else np.full(n3, float(inv_mu))
    en = np.asarray(compute_energy(jnp.asarray(E3), jnp.asarray(H3), jnp.asarray(inv_eps), jnp.asarray(inv_mu) if inv_mu.ndim else float(inv_mu)))
    pf = np.asarray(compute_poynting_flux(jnp.asarray(E3), jnp.asarray(H3)))
    l1 = Y.request(sc, "denergy", E3, H3, ie3, im3, None, None, None, 0)
    l2 = Y.request(sc, "poynting", E3, H3, ie3, im3, None, None, None, 0)
    ctx.expect_close("compute_energy", c, en.ravel(), np.array(h2fs(ctx.driver.ask(l1))))
    ctx.expect_close("compute_poynting_flux", c, pf.ravel(), np.array(h2fs(ctx.driver.ask(l2))))
    return detail


def cpml_part(ctx, c, sc, rng):
    """(5) a few cells of step_cpml of every placed PML object vs the model"""
    jnp = Y.J()["jnp"]
    n = 0
    for pml in sc.objects.pml_objects:
        shp = tuple(pml.grid_shape)
        r = np.random.default_rng(c["seed"] + 17 + n)
        d1, d2, p1, p2 = (r.standard_normal(shp) for _ in range(4))
        kone = pml.kappa_start == 1.0 and pml.kappa_end == 1.0
        for is_e in (True, False):
            for sim in (True, False):
                c1, c2, q1, q2 = (np.asarray(x) for x in pml.step_cpml(jnp.asarray(d1), jnp.asarray(d2), jnp.asarray(p1), jnp.asarray(p2), is_e, sim))
                aa, bb, ik = (np.broadcast_to(np.asarray(x, dtype=np.float64), shp) for x in
                              ((pml.pml_a_H, pml.pml_b_H, pml.inv_kappa_H) if is_e else (pml.pml_a_E, pml.pml_b_E, pml.inv_kappa_E)))
                idx = tuple(int(rng.randint(0, s - 1)) for s in shp)
                for (dd, pp, cc_, qq) in ((d1, p1, c1, q1), (d2, p2, c2, q2)):
                    line = " ".join(["cpml", f2h(aa[idx]), f2h(bb[idx]), f2h(ik[idx]), f2h(pp[idx]), f2h(dd[idx]), "1" if sim else "0", "1" if kone else "0"])
                    ctx.expect_close("step_cpml", c, np.array([cc_[idx], qq[idx]]), np.array(h2fs(ctx.driver.ask(line))))
                    n += 1
    return n


# ------------------------------------------------------------------------------------------ run / search / replay
def one_case(ctx, c, sample=False):
    sc = scene_of(c)
    info = {}
    d0 = run_oracle(c, sc, info)
    d1, data = forward_superposition(c, sc)
    # the shared Yee model has no ADE polarisation: scenes with a dispersive block are oracle-only
    d2 = None if c.get("dispersive") else model_part(ctx, c, sc, data)
    npm = 0 if c.get("dispersive") else pml_model_part(ctx, c, sc, data)
    ncp = cpml_part(ctx, c, sc, ctx.rng)
    kinds = sorted(set(c["faces"].values()))
    nt = (tuple(c["shape"]), c["seed"]) if info.get("on1") and info.get("on2") else None
    ctx.case(sample={k: c[k] for k in ("shape", "faces", "sources", "steps", "amps", "gradient", "seed")} if sample else None,
             nontrivial=nt, n_sources=len(c["sources"]), grid="nonuniform" if c["widths"] else "uniform", gradient=str(c["gradient"]),
             sig_e=c["sig_e"], eps_tier=c["eps_tier"], both_sources_on=bool(nt), cpml_cells=ncp > 0,
             dispersive=(c["dispersive"]["kind"] if c.get("dispersive") else "no"), pml_layers_vs_model=npm,
             **{"src_" + s["kind"]: True for s in c["sources"]}, **{"sw_" + s["switch"]: True for s in c["sources"]},
             **{"face_" + k: True for k in kinds},
             **{"det_%s_%s%s" % (d["kind"], "reduced" if d["reduce"] else "full", "_exact" if d["exact"] else ""): True for d in c["detectors"]})
    ctx.impl_property_evals += 3
    for d in (d0, d1, d2):
        if d:
            ctx.violation(c, d)
            break


FORCED = [
    dict(shape=[5, 5, 8], pml_thickness=2, widths=None, steps=10, gradient=None,
         faces={"min_x": "periodic", "max_x": "periodic", "min_y": "periodic", "max_y": "periodic", "min_z": "pml", "max_z": "pml"},
         sources=[{"kind": "uniform", "axis": 2, "direction": "+", "profile": "pulse", "switch": "default", "pol": 0, "pos": [2, 2, 3]},
                  {"kind": "dipole_m", "axis": 0, "direction": "+", "profile": "cw", "switch": "interval", "pol": 1, "pos": [1, 3, 4]}]),
    dict(shape=[6, 6, 6], pml_thickness=2, widths=None, steps=8, gradient="reversible",
         faces={k: "pml" for k in Y.FACES},
         sources=[{"kind": "gauss", "axis": 0, "direction": "-", "profile": "cw", "switch": "default", "pol": 1, "pos": [3, 2, 2]},
                  {"kind": "dipole_e", "axis": 0, "direction": "+", "profile": "pulse", "switch": "start", "pol": 2, "pos": [2, 3, 3]}]),
    dict(shape=[4, 6, 5], pml_thickness=2, steps=7, gradient=None, sig_e=True,
         faces={"min_x": "pec", "max_x": "pmc", "min_y": "pml", "max_y": "pec", "min_z": "periodic", "max_z": "periodic"},
         sources=[{"kind": "dipole_e", "axis": 1, "direction": "+", "profile": "cw", "switch": "default", "pol": 0, "pos": [1, 3, 2]}]),
]


def dispersive_forced(seed, k=0):
    """amplitude-scaling scene with a plane source and a small Lorentz / Drude block elsewhere in the volume (the
    dispersive H-side temporal filter of every TFSF source exists as soon as any material is dispersive)"""
    kind = "lorentz" if (seed + k) % 2 == 0 else "drude"
    src_kind = "uniform" if (seed + k) % 3 != 1 else "gauss"
    return dict(shape=[5, 5, 8], pml_thickness=2, widths=None, steps=9, gradient=None, eps_tier=1, sig_e=False,
                faces={"min_x": "periodic", "max_x": "periodic", "min_y": "periodic", "max_y": "periodic", "min_z": "pml", "max_z": "pml"},
                sources=[{"kind": src_kind, "axis": 2, "direction": "+" if k % 2 == 0 else "-", "profile": "cw" if (seed + k) % 2 else "pulse",
                          "switch": "default", "pol": seed % 2, "pos": [2, 2, 3]}] +
                        ([{"kind": "dipole_e", "axis": 0, "direction": "+", "profile": "cw", "switch": "default", "pol": 1, "pos": [1, 3, 4]}] if k % 2 else []),
                dispersive={"kind": kind, "pos": [3, 1, 5], "size": [2, 2, 1]})


def _fix_positions(c):
    th = c["pml_thickness"]
    for s in c["sources"]:
        s["pos"] = [int(min(max(p, _lo(c["faces"], ax, th)), c["shape"][ax] - 1 - _hi(c["faces"], ax, th))) for ax, p in enumerate(s["pos"])]
    for d in c["detectors"]:
        if d["kind"] == "poynting":
            d["coord"] = int(min(d["coord"], c["shape"][d["axis"]] - 1))
    if c["widths"] is not None:
        c["widths"] = [[50e-9 * (0.7 + 0.8 * ((7 * i + 3 * ax) % 5) / 4.0) for i in range(n)] if len(w) != n else w
                       for ax, (w, n) in enumerate(zip(c["widths"], c["shape"]))]
    return c


def run(ctx):
    if ctx.thorough:
        cases = [_fix_positions(gen_case(ctx.rng, True, f)) for f in FORCED]
        while len(cases) < 20:
            cases.append(gen_case(ctx.rng, True))
        for k in range(5):
            cases.append(_fix_positions(gen_case(ctx.rng, True, dispersive_forced(ctx.seed, k))))
    else:
        # quick: the dispersive-block scene (plane source + dipole, k = 1) and one rotating scene: a forced one for even
        # seeds, a generated one for odd seeds
        cases = [_fix_positions(gen_case(ctx.rng, False, dispersive_forced(ctx.seed, 1))),
                 gen_case(ctx.rng, False) if ctx.seed % 2 == 1 else _fix_positions(gen_case(ctx.rng, False, FORCED[(ctx.seed // 2) % 3]))]
    for i, c in enumerate(cases):
        one_case(ctx, c, sample=i < 2)
    # sources really removed from the object list: tilted magnetic and tilted electric dipole + a neighbour source
    rem = [gen_removal_case(ctx.rng, ctx.thorough, "m"), gen_removal_case(ctx.rng, ctx.thorough, "e")]
    for _ in range(ctx.scale(0, 6)):
        rem.append(gen_removal_case(ctx.rng, True, ctx.rng.choice(["m", "e"])))
    for i, c in enumerate(rem):
        one_removal_case(ctx, c, sample=i == 0)
    # full 3x3 material tensors: superposition on the real code + forward() vs the any-tier model `afwd`
    for _ in range(ctx.scale(1, 6)):
        one_aniso_case(ctx, gen_aniso_case(ctx.rng, ctx.thorough))
    # factor given at construction, separate placements at f0, -f0, 2 f0
    for k in range(ctx.scale(1, 4)):
        one_placed_case(ctx, gen_case(ctx.rng, ctx.thorough, placed_forced(ctx.seed, k)), sample=False)


def property_fails(c):
    if c.get("mode") == "aniso":
        return aniso_eval(c)[0]
    if c.get("mode") == "removal":
        return removal_oracle(c)
    if c.get("mode") == "placed":
        return placed_oracle(c)
    sc = scene_of(c)
    d = run_oracle(c, sc)
    if d:
        return d
    d, _ = forward_superposition(c, sc)
    return d


def search(ctx, hints):
    for h in hints:
        if isinstance(h, dict) and "shape" in h:
            ctx.impl_property_evals += 1
            d = property_fails(h)
            if d:
                ctx.violation(h, d)
                return
    rng = ctx.rng.fork()
    for k in range(4):
        c = gen_case(rng, False, placed_forced(ctx.seed, k))
        ctx.impl_property_evals += 1
        d = property_fails(c)
        if d:
            ctx.violation(c, d)
            return
    for i in range(ctx.scale(4, 12)):
        c = gen_removal_case(rng, i >= 2, "m" if i % 2 == 0 else "e")
        ctx.impl_property_evals += 1
        d = property_fails(c)
        if d:
            ctx.violation(c, d)
            return
    for i in range(ctx.scale(8, 40)):
        c = gen_case(rng, False)
        if i % 2 == 0:
            # smallest scenes first: one source, short run
            c["sources"] = c["sources"][:1]
            c["steps"] = 6
        ctx.impl_property_evals += 1
        d = property_fails(c)
        if d:
            ctx.violation(c, d)
            return


def replay(ctx, inp):
    return property_fails(inp)
