"""C17 — phasor detectors (running windowed DFT) and phasor Poynting flux vs lean/FdtdxModel/C17.lean"""
import math

import numpy as np

from . import c14
from .common import f2h, h2f

RULE = ("K: real run_fdtd runs on a 4x4x4..5x4x4 periodic box with a pulsed dipole; per scene a PhasorDetector, a "
        "PhasorPoyntingFluxDetector (plane) and a ClosedSurfacePhasorPoyntingFluxDetector (box, incl. size-one axes), each "
        "with random frequencies (1-3), scaling mode, dft_subsample (1..4 or 'auto'), apodization (none / GaussianWindow / "
        "TukeyWindow alpha in {0, .5, 1, random}) and a random valid OnOffSwitch; the seeded scene of every run also has "
        "plane detectors with keep_all_components=True in all of {continuous, pulse} x {+, -}; the second scene of every run is on "
        "a NON-UNIFORM RectilinearGrid (4x5x4, all widths different) with y- and z-normal plane detectors (scalar and keep_all) "
        "and a box, against own per-cell face areas; next to each an always-on FieldDetector on "
        "the same cells (same interpolation flag). Independent oracle (numpy): scale * sum_t w(t) field(t) exp(i w t) from "
        "the FieldDetector history, own window formulas, own thinning; phasor fluxes from numpy cross products. Compared "
        "to 1e-9 of the largest entry with the implementation's state / compute_poynting_flux / compute_net_flux. The "
        "Lean model receives the base on-list, the stride, the window parameters and single-cell histories and must "
        "reproduce kept mask, window sum, scale and accumulated phasor (sampled cells), and the fluxes from the stored "
        "phasors. Also: PhasorDetector._calculate_on_list for EVERY on-list of length <= 7 (thorough 10) and strides 0..4 (exact), "
        "_resolve_dft_stride incl. 'auto', TemporalWindow.get_window vs the model's windows, direct PhasorDetector.update "
        "calls with inverse=True. non-trivial = non-rectangular window, stride > 1, a switch with inactive steps, pulse "
        "mode, or inverse.")

M = c14.M
RES = c14.RES
C0 = 299792458.0


# ------------------------------------------------------------------------------------ oracle pieces
def np_window(win, t):
    """own formulas of the documented windows"""
    t = np.asarray(t, dtype=np.float64)
    if win is None:
        return np.ones_like(t)
    if win["kind"] == "gauss":
        return np.exp(-((t - win["center"]) ** 2) / (2.0 * win["sigma"] ** 2))
    a, b, al = win["start"], win["end"], win["alpha"]
    x = (t - a) / (b - a)
    inside = (x >= 0) & (x <= 1)
    if al <= 0:
        return np.where(inside, 1.0, 0.0)
    h = al / 2
    w = np.ones_like(x)
    left = 0.5 * (1 + np.cos(np.pi * (x / h - 1)))
    right = 0.5 * (1 + np.cos(np.pi * ((x - 1) / h + 1)))
    w = np.where(x < h, left, np.where(x > 1 - h, right, 1.0))
    return np.where(inside, w, 0.0)


def np_thin(on, stride):
    if stride <= 1:
        return list(on)
    act = [t for t, b in enumerate(on) if b]
    kept = [False] * len(on)
    for t in act[::stride]:
        kept[t] = True
    return kept


def oracle_phasor(hist, base_on, stride, mode, win, freqs, dt, inverse=False):
    """hist: (T, C, *cells) real history → (F, C, *cells) complex; None when the window sum is not positive"""
    T = hist.shape[0]
    kept = np.asarray(np_thin(base_on, stride), dtype=np.float64)
    w = np_window(win, np.arange(T) * dt) * kept
    ws = float(w.sum())
    if not (ws > 0 and math.isfinite(ws)):
        return None
    scale = 2.0 / ws if mode == "continuous" else float(stride)
    ph = np.exp(1j * 2 * np.pi * np.asarray(freqs)[:, None] * (np.arange(T) * dt)[None, :])      # (F, T)
    out = scale * np.tensordot(ph * w[None, :], hist, axes=([1], [0]))
    return -out if inverse else out


def oracle_poynting(ph6):
    """ph6: (F, 6, *cells) → Re(E × conj H): (F, 3, *cells)"""
    return np.cross(ph6[:, :3], np.conj(ph6[:, 3:]), axisa=1, axisb=1, axisc=1).real


# ------------------------------------------------------------------------------------ scene
def window_obj(win):
    fd = M()["fdtdx"]
    if win is None:
        return None
    if win["kind"] == "gauss":
        return fd.GaussianWindow(center_time=win["center"], sigma_time=win["sigma"])
    return fd.TukeyWindow(start_time=win["start"], end_time=win["end"], alpha=win["alpha"])


def resolve_stride(sub, freqs, dt):
    if sub == "auto":
        fmax = max(abs(f) for f in freqs)
        if fmax <= 0 or dt <= 0:
            return 1
        return max(1, math.floor(1.0 / (12 * fmax * dt)))
    return max(1, int(sub))


def region_constraints(obj, region, widths=None):
    lo = tuple(r[0] for r in region)
    hi = tuple(r[1] for r in region)
    if widths is not None:      # index-space constraints are rejected on non-uniform grids: use the physical edges
        fd = M()["fdtdx"]
        edges = [np.concatenate([[0.0], np.cumsum(np.asarray(w, dtype=np.float64) * RES)]) for w in widths]
        return [fd.RealCoordinateConstraint(object=obj.name, axes=(0, 1, 2), sides=("-", "-", "-"),
                                            coordinates=tuple(float(edges[a][lo[a]]) for a in range(3))),
                fd.RealCoordinateConstraint(object=obj.name, axes=(0, 1, 2), sides=("+", "+", "+"),
                                            coordinates=tuple(float(edges[a][hi[a]]) for a in range(3)))]
    return [obj.set_grid_coordinates(axes=(0, 1, 2), sides=("-", "-", "-"), coordinates=lo),
            obj.set_grid_coordinates(axes=(0, 1, 2), sides=("+", "+", "+"), coordinates=hi)]


def grid_of(sc):
    """UniformGrid, or a non-uniform RectilinearGrid when the scene gives cell widths (in units of RES) per axis"""
    m = M()
    fd, jnp = m["fdtdx"], m["jnp"]
    if sc.get("widths") is None:
        return fd.UniformGrid(spacing=RES)
    edges = [jnp.asarray(np.concatenate([[0.0], np.cumsum(np.asarray(w, dtype=np.float64) * RES)])) for w in sc["widths"]]
    return fd.RectilinearGrid(x_edges=edges[0], y_edges=edges[1], z_edges=edges[2])


def dt_of(sc):
    m = M()
    if sc.get("widths") is None:
        return c14.scene_dt()
    return float(m["fdtdx"].SimulationConfig(time=1e-13, grid=grid_of(sc), dtype=m["jnp"].float64, backend="cpu").time_step_duration)


def face_areas(sc, region, axis):
    """own per-cell face areas (normal `axis`) over `region`, broadcastable to the region's cell array"""
    w = sc.get("widths") or [[1.0] * n for n in sc["shape"]]
    ws = [np.asarray(w[a][region[a][0]:region[a][1]], dtype=np.float64) * RES for a in range(3)]
    shp = [1, 1, 1]
    out = np.ones((1, 1, 1))
    for a in range(3):
        if a != axis:
            sh = [1, 1, 1]
            sh[a] = len(ws[a])
            out = out * ws[a].reshape(sh)
    return out


def build(sc):
    m = M()
    fd, jnp, jax = m["fdtdx"], m["jnp"], m["jax"]
    T, shape = sc["T"], sc["shape"]
    grid = grid_of(sc)
    dt = dt_of(sc)
    cfg = fd.SimulationConfig(time=(T + 0.01) * dt, grid=grid, dtype=jnp.float64, backend="cpu")
    vol = (fd.SimulationVolume(partial_real_shape=tuple(n * RES for n in shape)) if sc.get("widths") is None
           else fd.SimulationVolume(partial_grid_shape=tuple(shape)))
    objs, cons = [vol], []
    bd, bc = fd.boundary_objects_from_config(fd.BoundaryConfig.from_uniform_bound(boundary_type="periodic"), vol)
    objs += list(bd.values())
    cons += bc
    wc = fd.WaveCharacter(wavelength=8 * RES)
    prof = fd.GaussianPulseProfile(spectral_width=fd.WaveCharacter(wavelength=20 * RES), center_wave=wc)
    src = fd.PointDipoleSource(name="src", partial_grid_shape=(1, 1, 1), wave_character=wc, polarization=sc["pol"],
                               temporal_profile=prof, azimuth_angle=20.0, elevation_angle=35.0)
    objs.append(src)
    cons += region_constraints(src, [(1, 2), (2, 3), (1, 2)], sc.get("widths"))
    for i, d in enumerate(sc["dets"]):
        common = dict(name=f"p{i}", dtype=jnp.complex128, exact_interpolation=sc["exact"], switch=c14.switch_of(d["switch"]),
                      wave_characters=tuple(fd.WaveCharacter(frequency=f) for f in d["freqs"]), scaling_mode=d["mode"],
                      dft_subsample=d["sub"], apodization=window_obj(d["win"]))
        if d["kind"] == "phasor":
            o = fd.PhasorDetector(reduce_volume=d["reduce"], components=tuple(d["components"]), **common)
        elif d["kind"] == "plane":
            o = fd.PhasorPoyntingFluxDetector(direction=d["direction"], keep_all_components=d["keep_all"],
                                              fixed_propagation_axis=d.get("fixed_axis"), **common)
        else:
            o = fd.ClosedSurfacePhasorPoyntingFluxDetector(orientation=d["orientation"], axes=None if d["axes"] is None else tuple(d["axes"]), **common)
        h = fd.FieldDetector(name=f"h{i}", dtype=jnp.float64, exact_interpolation=sc["exact"], plot=False)
        objs += [o, h]
        cons += region_constraints(o, d["region"], sc.get("widths")) + region_constraints(h, d["region"], sc.get("widths"))
    key = jax.random.PRNGKey(0)
    o, a, p, c, _ = fd.place_objects(object_list=objs, config=cfg, constraints=cons, key=key)
    a, o, _ = fd.apply_params(a, o, p, key)
    for i, d in enumerate(sc["dets"]):
        assert tuple(tuple(r) for r in o[f"p{i}"].grid_slice_tuple) == tuple(tuple(r) for r in d["region"]), "placement"
    return o, a, c


def cells_line(ph6, area):
    """(6, n) complex + (n,) → 13 hex floats per cell"""
    out = []
    for j in range(ph6.shape[1]):
        for k in range(6):
            out += [f2h(ph6[k, j].real), f2h(ph6[k, j].imag)]
        out.append(f2h(area[j]))
    return " ".join(out)


def win_tokens(win):
    if win is None:
        return "rect"
    if win["kind"] == "gauss":
        return f"gauss {f2h(win['center'])} {f2h(win['sigma'])}"
    return f"tukey {f2h(win['start'])} {f2h(win['end'])} {f2h(win['alpha'])}"


def nontrivial_of(d, base_on):
    return (d["kind"], d["win"]["kind"] if d["win"] else "rect", d["sub"], d["mode"], not all(base_on), len(d["freqs"]))


def run_scene(ctx, sc, check_model=True):
    """returns a violation detail or None"""
    m = M()
    fd, jnp, jax = m["fdtdx"], m["jnp"], m["jax"]
    o, a, cfg = build(sc)
    T = sc["T"]
    assert cfg.time_steps_total == T
    dt = float(cfg.time_step_duration)
    _, arr = fd.run_fdtd(arrays=a, objects=o, config=cfg, key=jax.random.PRNGKey(1), show_progress=False)
    detail = None
    lines, after = [], []
    for i, d in enumerate(sc["dets"]):
        det = o[f"p{i}"]
        hist = np.asarray(arr.detector_states[f"h{i}"]["fields"])           # (T, 6, nx, ny, nz)
        state = {k: np.asarray(v) for k, v in arr.detector_states[f"p{i}"].items()}
        base_on = c14.oracle_on_list(dict(d["switch"], T=T, dt=dt))
        impl_base = det.switch.calculate_on_list(num_total_time_steps=T, time_step_duration=dt)
        stride = resolve_stride(d["sub"], d["freqs"], dt)
        comp_idx = [["Ex", "Ey", "Ez", "Hx", "Hy", "Hz"].index(c) for c in ["Ex", "Ey", "Ez", "Hx", "Hy", "Hz"]
                    if d["kind"] != "phasor" or c in d["components"]]
        exp = oracle_phasor(hist[:, comp_idx], base_on, stride, d["mode"], d["win"], d["freqs"], dt)
        assert exp is not None, "generator produced a non-positive window sum"
        ctx.impl_property_evals += 1
        nz = float(np.max(np.abs(exp)))
        if nz == 0.0:
            ctx.notes.append("all-zero expected phasor in a scene (source did not reach the detector)")
        # ---------------- stored phasors = windowed DFT of the history
        if d["kind"] == "phasor":
            got = state["phasor"][0]
            e = exp
            if d["reduce"]:
                wts = np.asarray(det._cached_cell_volume_weights)
                e = (exp * wts[None, None]).sum(axis=(2, 3, 4)) / wts.sum()
            bad = got.shape != e.shape or not err_ok(got, e, tol_of(d), scale=nz)      # nz: size of the unreduced phasors
            if bad and detail is None:
                detail = (f"PhasorDetector p{i} state differs from the windowed DFT of the FieldDetector history: "
                          f"max |diff| {maxdiff(got, e):.3e} of max |expected| {np.max(np.abs(e)):.3e} ({describe(d, stride)})")
        elif d["kind"] == "plane":
            got = state["phasor"][0]
            if (got.shape != exp.shape or not err_ok(got, exp, tol_of(d))) and detail is None:
                detail = (f"PhasorPoyntingFluxDetector p{i} phasors differ from the windowed DFT: max |diff| "
                          f"{maxdiff(got, exp):.3e} of {np.max(np.abs(exp)):.3e} ({describe(d, stride)})")
            shape = got.shape[2:]
            axis = d.get("fixed_axis") if d.get("fixed_axis") is not None else list(shape).index(1)
            pv = oracle_poynting(exp)
            if d["direction"] == "-":
                pv = -pv
            if d["keep_all"]:
                area3 = np.stack([np.broadcast_to(face_areas(sc, d["region"], ax), shape) for ax in range(3)])
                flux = (pv * area3[None]).sum(axis=(2, 3, 4))
            else:
                flux = (pv[:, axis] * face_areas(sc, d["region"], axis)[None]).sum(axis=(1, 2, 3))
            if d["mode"] == "continuous":
                flux = 0.5 * flux
            gotf = np.asarray(det.compute_poynting_flux({k: jnp.asarray(v) for k, v in state.items()}))
            ctx.impl_property_evals += 1
            if (gotf.shape != flux.shape or not err_ok(gotf, flux, 2 * tol_of(d), scale=max(float(np.max(np.abs(flux))), nz * nz * RES * RES))) and detail is None:
                detail = (f"compute_poynting_flux of p{i} = {gotf.tolist()} but 1/2 Re(E x H*) . dA of the DFT phasors = "
                          f"{flux.tolist()} ({describe(d, stride)})")
        else:
            shape = hist.shape[2:]
            active = tuple(d["axes"]) if d["axes"] is not None else tuple(ax for ax in range(3) if shape[ax] > 1)
            net = np.zeros(len(d["freqs"]))
            for ax in active:
                for side, sign in (("max", 1.0), ("min", -1.0)):
                    sl = [slice(None)] * 5
                    sl[ax + 2] = slice(-1, None) if side == "max" else slice(0, 1)
                    e_face = exp[tuple(sl)]
                    got = state[f"phasor_axis{ax}_{side}"][0]
                    if (got.shape != e_face.shape or not err_ok(got, e_face, tol_of(d), scale=nz)) and detail is None:
                        detail = (f"closed-surface detector p{i}: stored face axis{ax}_{side} differs from the windowed DFT "
                                  f"of the history on the same cells: max |diff| {maxdiff(got, e_face):.3e} of "
                                  f"{nz:.3e} ({describe(d, stride)})")
                    net += sign * (oracle_poynting(e_face)[:, ax] * face_areas(sc, d["region"], ax)[None]).sum(axis=(1, 2, 3))
            if d["orientation"] == "inward":
                net = -net
            if d["mode"] == "continuous":
                net = 0.5 * net
            gotn = np.asarray(det.compute_net_flux({k: jnp.asarray(v) for k, v in state.items()}))
            ctx.impl_property_evals += 1
            scale_n = max(float(np.max(np.abs(net))), nz * nz * RES * RES)
            if (gotn.shape != net.shape or not err_ok(gotn, net, 2 * tol_of(d), scale=scale_n)) and detail is None:
                detail = (f"compute_net_flux of p{i} = {gotn.tolist()} but the closed-surface sum of 1/2 Re(E x H*) . dA of the "
                          f"DFT phasors = {net.tolist()} ({describe(d, stride)})")
        ctx.case(nontrivial=nontrivial_of(d, base_on), kind=d["kind"], window=d["win"]["kind"] if d["win"] else "rect",
                 stride=stride, mode=d["mode"], sub=str(d["sub"]), inactive_steps=sum(1 for b in base_on if not b),
                 option=(f"reduce={d['reduce']}" if d["kind"] == "phasor" else f"keep_all={d['keep_all']}" if d["kind"] == "plane"
                         else f"axes={d['axes']},{d['orientation']}"))
        if not check_model:
            continue
        # ---------------- model: sampled single-cell histories through `dft`
        rs = np.random.RandomState(sc["seed"] + i)
        flat_hist = hist[:, comp_idx].reshape(T, len(comp_idx), -1)
        if d["kind"] == "phasor" and d["reduce"]:
            wts = np.asarray(det._cached_cell_volume_weights).reshape(-1)
            flat_hist = (flat_hist * wts[None, None]).sum(axis=2, keepdims=True) / wts.sum()
        ncell = flat_hist.shape[2]
        for _ in range(4):
            fi, ci, xi = rs.randint(len(d["freqs"])), rs.randint(len(comp_idx)), rs.randint(ncell)
            series = flat_hist[:, ci, xi]
            lines.append(f"dft {T} {f2h(dt)} {f2h(d['freqs'][fi])} {d['mode']} {stride} 0 {win_tokens(d['win'])} "
                         + " ".join("1" if b else "0" for b in impl_base) + " " + " ".join(f2h(v) for v in series))
            if d["kind"] == "closed":
                impl_val = None     # interior cells are not stored; compare through the faces below
                sl_shape = hist.shape[2:]
                idx3 = np.unravel_index(xi, sl_shape)
                for ax in range(3):
                    if f"phasor_axis{ax}_min" in state and idx3[ax] == 0:
                        j = list(idx3)
                        j[ax] = 0
                        impl_val = state[f"phasor_axis{ax}_min"][0][fi, ci][tuple(j)]
                    if f"phasor_axis{ax}_max" in state and idx3[ax] == sl_shape[ax] - 1:
                        j = list(idx3)
                        j[ax] = 0
                        impl_val = state[f"phasor_axis{ax}_max"][0][fi, ci][tuple(j)]
            else:
                impl_val = state["phasor"][0][fi, ci].reshape(-1)[xi] if not (d["kind"] == "phasor" and d["reduce"]) \
                    else state["phasor"][0][fi, ci]
            after.append(("dft", i, d, stride, impl_val, det, nz))
        # ---------------- model: fluxes from the stored phasors
        if d["kind"] == "plane":
            ph = state["phasor"][0]
            shape = ph.shape[2:]
            gotf = np.asarray(det.compute_poynting_flux({k: jnp.asarray(v) for k, v in state.items()}))
            if d["keep_all"]:
                todo = [(ax, np.asarray(det._cached_face_area_weights[ax]).reshape(-1), lambda fi, ax=ax: gotf[fi, ax]) for ax in range(3)]
            else:
                axis = d.get("fixed_axis") if d.get("fixed_axis") is not None else list(shape).index(1)
                todo = [(axis, np.asarray(det._cached_face_area_weights).reshape(-1), lambda fi: gotf[fi])]
            for axis, wts, pick in todo:
                for fi in range(len(d["freqs"])):
                    lines.append(f"plane {d['mode']} {1 if d['direction'] == '-' else 0} {axis} {wts.size} "
                                 + cells_line(ph[fi].reshape(6, -1), wts))
                    after.append(("flux", i, d, stride, float(pick(fi)), det, nz))
        if d["kind"] == "closed":
            gotn = np.asarray(det.compute_net_flux({k: jnp.asarray(v) for k, v in state.items()}))
            active = tuple(d["axes"]) if d["axes"] is not None else tuple(ax for ax in range(3) if hist.shape[2 + ax] > 1)
            for fi in range(len(d["freqs"])):
                toks = [f"net {d['mode']} {1 if d['orientation'] == 'inward' else 0} {2 * len(active)}"]
                for ax in active:
                    area = np.asarray(det._face_area_weights_per_axis[ax]).reshape(-1)
                    for side in ("max", "min"):
                        ph = state[f"phasor_axis{ax}_{side}"][0][fi].reshape(6, -1)
                        toks.append(f"{ax} {1 if side == 'max' else 0} {area.size} " + cells_line(ph, area))
                lines.append(" ".join(toks))
                after.append(("flux", i, d, stride, float(gotn[fi]), det, nz))
    if check_model and lines:
        reps = ctx.driver.ask_many(lines)
        for rep, (kind, i, d, stride, impl_val, det, nz) in zip(reps, after):
            case = {"scene": sc, "det": i, "op": kind}
            if kind == "dft":
                if not rep.startswith("ok"):
                    ctx.mismatch("dft", case, {"model": rep, "impl": "placed and ran"})
                    continue
                p = [x.strip() for x in rep[3:].split("|")]
                re_, im_ = [h2f(x) for x in p[0].split()]
                ws, scl = [h2f(x) for x in p[1].split()]
                ctx.expect_equal("kept-mask", case, " ".join("1" if b else "0" for b in np.asarray(det._is_on_at_time_step_arr).tolist()), p[2])
                ctx.expect_close("window-sum", case, [float(det._window_sum)], [ws], tol=1e-12 if d["win"] is None else 5e-7, floor=1e-300)
                ctx.expect_close("static-scale", case, [float(det._static_scale())], [scl], tol=1e-12 if d["win"] is None else 5e-7, floor=1e-300)
                if impl_val is not None:
                    ctx.expect_close("dft", case, [complex(impl_val)], [complex(re_, im_)], tol=tol_of(d), floor=max(nz, 1e-300))
            else:
                ctx.expect_close("flux", case, [impl_val], [h2f(rep)], tol=1e-9, floor=max(nz * nz * RES * RES, 1e-300))
    return detail


def tol_of(d):
    """1e-9, except with an apodization window: place_on_grid multiplies the (weakly typed) float64 window by the
    float32 on-mask, so under x64 the stored weights are rounded to float32 (relative 6e-8 each)"""
    return 1e-9 if d["win"] is None else 5e-7


def err_ok(got, exp, tol=1e-9, scale=None):
    scale = float(np.max(np.abs(exp))) if scale is None else scale
    if scale == 0.0:
        return bool(np.max(np.abs(got)) == 0.0) if np.size(got) else True
    return bool(np.max(np.abs(np.asarray(got) - np.asarray(exp))) <= tol * scale)


def maxdiff(got, exp):
    if np.shape(got) != np.shape(exp):
        return float("inf")
    return float(np.max(np.abs(np.asarray(got) - np.asarray(exp))))


def describe(d, stride):
    return f"mode={d['mode']}, stride={stride}, window={d['win']}, freqs={d['freqs']}, switch={ {k: v for k, v in d['switch'].items() if v not in (None, False, 1)} }"


# ------------------------------------------------------------------------------------ generator
def random_window(rng, T, dt, on):
    k = rng.randint(0, 5)
    steps = [t for t, b in enumerate(on) if b] or [0]
    lo, hi = steps[0], steps[-1]
    if k <= 1:
        return None
    if k == 2:
        return {"kind": "gauss", "center": rng.uniform(lo - 1, hi + 1) * dt, "sigma": rng.uniform(0.8, T / 2) * dt}
    alpha = rng.choice([0.0, 0.5, 1.0, rng.uniform(0.05, 0.95)])
    a = rng.uniform(lo - 3, lo + 0.4)
    b = rng.uniform(hi + 0.6, hi + 3)
    if rng.chance(0.3):     # window narrower than the recording interval (zero weights inside it)
        a, b = lo + rng.uniform(0, 1.5), max(hi - rng.uniform(0, 1.5), lo + 2.5)
    return {"kind": "tukey", "start": a * dt, "end": b * dt, "alpha": alpha}


def random_det(rng, kind, T, dt, shape):
    per = 8 * RES / C0
    for _ in range(50):
        sw = c14.random_switch_case(rng, T, dt, per=per, valid_only=True) if rng.chance(0.7) else c14.mk_case(T, dt)
        on = c14.oracle_on_list(sw)
        if on == "error" or sum(on) < 3:
            continue
        sub = rng.choice([1, 1, 2, 3, 4, "auto", 0])
        nf = rng.randint(1, 3)
        f0 = C0 / (8 * RES)
        freqs = [f0 * rng.uniform(0.3, 2.5) for _ in range(nf)]
        if sub == "auto" and rng.chance(0.5):
            freqs = [f * 0.1 for f in freqs]          # low frequencies → auto stride > 1
        stride = resolve_stride(sub, freqs, dt)
        win = random_window(rng, T, dt, on)
        kept = np.asarray(np_thin(on, stride), dtype=float)
        ws = float((np_window(win, np.arange(T) * dt) * kept).sum())
        if not ws > 1e-3:
            continue
        d = {"kind": kind, "switch": sw, "sub": sub, "freqs": freqs, "mode": rng.choice(["continuous", "continuous", "pulse"]),
             "win": win}
        if kind == "phasor":
            comps = [c for c in ["Ex", "Ey", "Ez", "Hx", "Hy", "Hz"] if rng.chance(0.6)] or ["Ez"]
            lo = [rng.randint(0, n - 1) for n in shape]
            d.update(components=comps, reduce=rng.chance(0.3),
                     region=[(l, rng.randint(l + 1, n)) for l, n in zip(lo, shape)])
        elif kind == "plane":
            ax = rng.randint(0, 2)
            pos = rng.randint(0, shape[ax] - 1)
            region = [(0, n) for n in shape]
            region[ax] = (pos, pos + 1)
            d.update(direction=rng.choice(["+", "-"]), keep_all=rng.chance(0.25), fixed_axis=None, region=region)
        else:
            region = []
            for n in shape:
                l = rng.randint(0, n - 2)
                region.append((l, rng.randint(l + 1, n)))
            if rng.chance(0.4):     # a size-one axis: faces coincide and cancel / are skipped
                ax = rng.randint(0, 2)
                region[ax] = (region[ax][0], region[ax][0] + 1)
            axes = None if rng.chance(0.7) else sorted({rng.randint(0, 2) for _ in range(rng.randint(1, 3))})
            d.update(orientation=rng.choice(["outward", "inward"]), axes=axes, region=region)
        return d
    raise RuntimeError("could not generate a detector")


def random_scene(rng, i):
    dt = c14.scene_dt()
    T = rng.randint(12, 22)
    shape = rng.choice([(4, 4, 4), (5, 4, 4), (4, 5, 4)])
    return {"T": T, "shape": list(shape), "pol": rng.randint(0, 2), "exact": rng.chance(0.5), "seed": rng.np_seed(),
            "dets": [random_det(rng, k, T, dt, shape) for k in ("phasor", "plane", "closed")]}


def seed_scene():
    """the DESIGN §7 witness: Gaussian apodization on a closed-surface detector next to a PhasorDetector on the same box"""
    dt = c14.scene_dt()
    T = 16
    f0 = C0 / (8 * RES)
    win = {"kind": "gauss", "center": 8 * dt, "sigma": 3 * dt}
    box = [(1, 4), (0, 3), (1, 3)]
    return {"T": T, "shape": [4, 4, 4], "pol": 2, "exact": False, "seed": 3, "dets": [
        {"kind": "phasor", "switch": c14.mk_case(T, dt), "sub": 1, "freqs": [f0], "mode": "continuous", "win": win,
         "components": ["Ex", "Ey", "Ez", "Hx", "Hy", "Hz"], "reduce": False, "region": box},
        {"kind": "plane", "switch": c14.mk_case(T, dt, st=2 * dt), "sub": 2, "freqs": [f0, 1.7 * f0], "mode": "pulse",
         "win": {"kind": "tukey", "start": 1.5 * dt, "end": 15.2 * dt, "alpha": 0.5}, "direction": "-", "keep_all": True,
         "fixed_axis": None, "region": [(0, 4), (2, 3), (0, 4)]},
        {"kind": "closed", "switch": c14.mk_case(T, dt), "sub": 1, "freqs": [f0], "mode": "continuous", "win": win,
         "orientation": "outward", "axes": None, "region": box}]
        # keep_all_components=True in every (mode, direction) combination, one plane orientation each
        + [{"kind": "plane", "switch": c14.mk_case(T, dt, interval=1 if mode == "pulse" else 2), "sub": 1,
            "freqs": [f0, 0.6 * f0], "mode": mode, "win": None if direction == "+" else win, "direction": direction,
            "keep_all": True, "fixed_axis": None, "region": region}
           for (mode, direction, region) in (("continuous", "+", [(1, 2), (0, 4), (0, 4)]),
                                             ("continuous", "-", [(0, 4), (0, 4), (3, 4)]),
                                             ("pulse", "+", [(0, 4), (1, 2), (1, 4)]))]}


def nonuniform_scene():
    """non-uniform RectilinearGrid: y- and z-normal plane phasor Poynting detectors (scalar and keep_all) and a box —
    the per-cell face areas differ per normal axis, so a wrong normal axis in the cached weights shows"""
    sc = {"T": 14, "shape": [4, 5, 4], "pol": 1, "exact": False, "seed": 11,
          "widths": [[1.0, 1.6, 0.8, 1.2], [0.7, 1.0, 1.5, 1.0, 1.3], [1.4, 0.9, 1.0, 0.6]]}
    dt = dt_of(sc)
    T = sc["T"]
    f0 = C0 / (8 * RES)
    win = {"kind": "tukey", "start": -0.5 * dt, "end": 13.5 * dt, "alpha": 0.4}
    base = {"kind": "plane", "switch": c14.mk_case(T, dt), "sub": 1, "freqs": [f0, 0.5 * f0], "fixed_axis": None}
    sc["dets"] = [
        dict(base, mode="continuous", win=None, direction="+", keep_all=False, region=[(0, 4), (2, 3), (0, 4)]),
        dict(base, mode="pulse", win=win, direction="-", keep_all=False, region=[(0, 4), (0, 5), (1, 2)],
             switch=c14.mk_case(T, dt, st=1 * dt)),
        dict(base, mode="continuous", win=win, direction="-", keep_all=True, region=[(0, 4), (3, 4), (0, 4)]),
        dict(base, mode="continuous", win=None, direction="+", keep_all=True, region=[(0, 4), (0, 5), (3, 4)], sub=2),
        {"kind": "closed", "switch": c14.mk_case(T, dt), "sub": 1, "freqs": [f0], "mode": "continuous", "win": None,
         "orientation": "outward", "axes": None, "region": [(0, 3), (1, 4), (1, 3)]}]
    return sc


# ------------------------------------------------------------------------------------ small exact pieces
def check_thinning(ctx):
    """PhasorDetector._calculate_on_list on every on-list of length <= Lmax × strides, _resolve_dft_stride"""
    m = M()
    fd, jnp = m["fdtdx"], m["jnp"]
    Lmax = ctx.scale(7, 10)
    dt = c14.scene_dt()
    sc = {"T": Lmax, "shape": [4, 4, 4], "pol": 0, "exact": False, "seed": 0, "dets": [
        {"kind": "phasor", "switch": c14.mk_case(Lmax, dt), "sub": 1, "freqs": [1e14], "mode": "pulse", "win": None,
         "components": ["Ez"], "reduce": True, "region": [(0, 1), (0, 1), (0, 1)]}]}
    o, a, cfg = build(sc)
    det = o["p0"]
    lines, impls, cases = [], [], []
    for L in (Lmax, 5):
        for mask in range(2 ** L):
            on = [bool(mask >> t & 1) for t in range(L)] + [False] * (Lmax - L)
            for sub in ((0, 1, 2, 3, 4) if not ctx.thorough else (0, 1, 2, 3, 4, 5, 7)):
                d2 = det.aset("switch", fd.OnOffSwitch(fixed_on_time_steps=[t for t, b in enumerate(on) if b]))
                d2 = d2.aset("dft_subsample", sub)
                kept = d2._calculate_on_list()
                stride = d2._resolve_dft_stride()
                lines.append(f"thin {max(1, sub)} " + " ".join("1" if b else "0" for b in on))
                impls.append(" ".join("1" if b else "0" for b in kept))
                cases.append({"on": on, "sub": sub})
                ctx.impl_property_evals += 1
                exp = np_thin(on, max(1, sub))
                act = [t for t, b in enumerate(on) if b]
                if list(kept) != exp or stride != max(1, sub) or any(k and not b for k, b in zip(kept, on)) \
                        or sum(kept) != -(-len(act) // max(1, sub)):
                    ctx.violation({"kind": "thin", "on": on, "sub": sub},
                                  f"thinning of {on} with dft_subsample={sub} gave {list(kept)} (stride {stride}); every "
                                  f"{max(1, sub)}-th active step is {exp}")
    for rep, impl, case in zip(ctx.driver.ask_many(lines), impls, cases):
        ctx.case(nontrivial=("thin", case["sub"]) if case["sub"] > 1 else None, kind="thin")
        ctx.expect_equal("thin", case, impl, rep)
    # strides
    lines, impls, cases = [], [], []
    for sub in (-3, 0, 1, 2, 7):
        lines.append(f"stride {sub}")
        impls.append(str(det.aset("dft_subsample", sub)._resolve_dft_stride()))
        cases.append({"sub": sub})
    for f in (1e13, 3.3e13, 1e14, 7.4948e14, 5e15, 1e17):
        d2 = det.aset("dft_subsample", "auto").aset("wave_characters", (fd.WaveCharacter(frequency=f), fd.WaveCharacter(frequency=f / 3)))
        lines.append(f"auto {f2h(f)} {f2h(float(cfg.time_step_duration))}")
        impls.append(str(d2._resolve_dft_stride()))
        cases.append({"auto_f": f})
    for rep, impl, case in zip(ctx.driver.ask_many(lines), impls, cases):
        ctx.case(nontrivial=("stride", str(case)), kind="stride")
        ctx.expect_equal("stride", case, impl, rep)


def check_windows(ctx):
    m = M()
    jnp = m["jnp"]
    rng = ctx.rng.fork()
    dt = c14.scene_dt()
    T = 24
    wins = [{"kind": "gauss", "center": 7.3 * dt, "sigma": 2.1 * dt},
            {"kind": "tukey", "start": 2 * dt, "end": 20 * dt, "alpha": 0.5},
            {"kind": "tukey", "start": 2 * dt, "end": 20 * dt, "alpha": 1.0},
            {"kind": "tukey", "start": 2 * dt, "end": 20 * dt, "alpha": 0.0},
            {"kind": "tukey", "start": -3.5 * dt, "end": 11.25 * dt, "alpha": 0.2}]
    for _ in range(ctx.scale(10, 100)):
        wins.append(random_window(rng, T, dt, [True] * T) or wins[0])
    reps = ctx.driver.ask_many([f"win {win_tokens(w)} {f2h(dt)} {T}" for w in wins])
    for w, rep in zip(wins, reps):
        impl = np.asarray(window_obj(w).get_window(jnp.arange(T) * dt))
        model = np.asarray([h2f(x) for x in rep.split()])
        ctx.case(nontrivial=("win", w["kind"], w.get("alpha")), kind="window")
        ctx.expect_close("win", {"win": w}, impl, model, tol=1e-12)
        ctx.impl_property_evals += 1
        exp = np_window(w, np.arange(T) * dt)
        if not np.allclose(impl, exp, rtol=1e-12, atol=1e-15) or np.any(impl < 0) or np.any(impl > 1 + 1e-15):
            ctx.violation({"kind": "window", "win": w}, f"get_window = {impl.tolist()} but the documented shape gives {exp.tolist()}")


def direct_update_case(ctx, seed, check_model=True):
    """PhasorDetector.update called directly (inverse detectors are only updated in backward passes)"""
    from .common import Rng
    rng = Rng(seed)
    m = M()
    fd, jnp = m["fdtdx"], m["jnp"]
    dt = c14.scene_dt()
    T = 9
    inverse = rng.chance(0.7)
    d = random_det(rng, "phasor", T, dt, (4, 4, 4))
    d.update(region=[(1, 3), (0, 1), (2, 4)], reduce=False, components=["Ey", "Hz"])
    sc = {"T": T, "shape": [4, 4, 4], "pol": 0, "exact": False, "seed": 1, "dets": [d]}
    o, a, cfg = build(sc)
    det = o["p0"].aset("inverse", inverse)
    rs = np.random.RandomState(rng.np_seed())
    hist = rs.uniform(-1, 1, (T, 6, 2, 1, 2))
    state = {"phasor": jnp.zeros((1, len(d["freqs"]), 2, 2, 1, 2), dtype=jnp.complex128)}
    kept = np.asarray(det._is_on_at_time_step_arr)
    for t in range(T):
        if kept[t]:
            state = det.update(time_step=jnp.asarray(t, dtype=jnp.int32), E=jnp.asarray(hist[t, :3]), H=jnp.asarray(hist[t, 3:]),
                               state=state, inv_permittivity=jnp.ones((3, 2, 1, 2)), inv_permeability=1.0)
    got = np.asarray(state["phasor"][0])
    base_on = c14.oracle_on_list(dict(d["switch"], T=T, dt=dt))
    stride = resolve_stride(d["sub"], d["freqs"], dt)
    exp = oracle_phasor(hist[:, [1, 5]], base_on, stride, d["mode"], d["win"], d["freqs"], dt, inverse=inverse)
    ctx.impl_property_evals += 1
    ctx.case(nontrivial=("direct", inverse, d["mode"], stride), kind="direct-update", inverse=inverse)
    case = {"kind": "direct", "det": d, "inverse": inverse, "hist_seed": None}
    if not err_ok(got, exp, tol_of(d)):
        return f"PhasorDetector.update (inverse={inverse}) accumulated max |diff| {maxdiff(got, exp):.3e} from the windowed DFT ({describe(d, stride)})"
    if check_model:
        impl_base = det.switch.calculate_on_list(num_total_time_steps=T, time_step_duration=float(cfg.time_step_duration))
        lines, vals = [], []
        for fi in range(len(d["freqs"])):
            for ci in range(2):
                series = hist[:, [1, 5][ci], 1, 0, 0]
                lines.append(f"dft {T} {f2h(dt)} {f2h(d['freqs'][fi])} {d['mode']} {stride} {1 if inverse else 0} {win_tokens(d['win'])} "
                             + " ".join("1" if b else "0" for b in impl_base) + " " + " ".join(f2h(v) for v in series))
                vals.append(got[fi, ci, 1, 0, 0])
        for rep, v in zip(ctx.driver.ask_many(lines), vals):
            if not rep.startswith("ok"):
                ctx.mismatch("direct-dft", case, {"model": rep})
                continue
            re_, im_ = [h2f(x) for x in rep[3:].split("|")[0].split()]
            ctx.expect_close("direct-dft", case, [complex(v)], [complex(re_, im_)], tol=tol_of(d), floor=float(np.max(np.abs(got))))
    return None


# ------------------------------------------------------------------------------------------- K
def run(ctx):
    check_thinning(ctx)
    check_windows(ctx)
    for i in range(ctx.scale(2, 12)):
        seed = ctx.rng.np_seed()
        d = direct_update_case(ctx, seed)
        if d:
            ctx.violation({"kind": "direct", "seed": seed}, d)
    for i in range(ctx.scale(3, 30)):
        sc = seed_scene() if i == 0 else nonuniform_scene() if i == 1 else random_scene(ctx.rng, i)
        if i == 0:
            ctx.samples.append({"op": "scene", "scene": sc})
        d = run_scene(ctx, sc)
        if d:
            ctx.violation({"kind": "scene", "scene": sc}, d)


# ------------------------------------------------------------------------------------------- S
def search(ctx, hints):
    for h in hints:
        if isinstance(h, dict) and "scene" in h:
            d = run_scene(ctx, h["scene"], check_model=False)
            if d:
                ctx.violation({"kind": "scene", "scene": h["scene"]}, d)
                return
    check_thinning(ctx)
    check_windows(ctx)
    if ctx.violations:
        return
    for sc in (seed_scene(), nonuniform_scene()):
        d = run_scene(ctx, sc, check_model=False)
        if d:
            ctx.violation({"kind": "scene", "scene": sc}, d)
            return
    for seed in range(6):
        d = direct_update_case(ctx, seed, check_model=False)
        if d:
            ctx.violation({"kind": "direct", "seed": seed}, d)
            return
    rng = ctx.rng.fork()
    for i in range(25):
        sc = random_scene(rng, i)
        sc["T"] = min(sc["T"], 14)
        try:
            d = run_scene(ctx, sc, check_model=False)
        except AssertionError:
            continue
        if d:
            ctx.violation({"kind": "scene", "scene": sc}, d)
            return


def replay(ctx, inp):
    if inp.get("kind") == "scene":
        return run_scene(ctx, inp["scene"], check_model=False)
    if inp.get("kind") == "direct":
        return direct_update_case(ctx, inp["seed"], check_model=False)
    if inp.get("kind") == "thin":
        m = M()
        fd = m["fdtdx"]
        on, sub = inp["on"], inp["sub"]
        dt = c14.scene_dt()
        sc = {"T": len(on), "shape": [4, 4, 4], "pol": 0, "exact": False, "seed": 0, "dets": [
            {"kind": "phasor", "switch": c14.mk_case(len(on), dt, fixed=[t for t, b in enumerate(on) if b]), "sub": sub,
             "freqs": [1e14], "mode": "pulse", "win": None, "components": ["Ez"], "reduce": True,
             "region": [(0, 1), (0, 1), (0, 1)]}]}
        o, a, cfg = build(sc)
        kept = [bool(b) for b in np.asarray(o["p0"]._is_on_at_time_step_arr)]
        exp = np_thin(on, max(1, sub))
        return None if kept == exp else f"thinning of {on} with dft_subsample={sub} gave {kept}; expected {exp}"
    if inp.get("kind") == "window":
        w = inp["win"]
        jnp = M()["jnp"]
        dt = c14.scene_dt()
        impl = np.asarray(window_obj(w).get_window(jnp.arange(24) * dt))
        exp = np_window(w, np.arange(24) * dt)
        return None if np.allclose(impl, exp, rtol=1e-12, atol=1e-15) else f"get_window = {impl.tolist()} vs {exp.tolist()}"
    return None
