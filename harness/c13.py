"""C13 — plane sources radiate only in their stated direction.

K:  (a) increments of UniformPlaneSource / GaussianPlaneSource `update_E` / `update_H` (→ `_tfsf_inject_E_face/_H_face`) on
        zero fields, for all six axis/direction cases × polarisations × time steps (forward and inverse), vs the Lean
        injection model fed with an independent numpy reconstruction of the incident amplitudes (polarisation vectors,
        energy normalisation, impedance, Gaussian profile) and of the Yee time offsets (`calculate_time_offset_yee`);
    (b) a transversally periodic single-column scene stepped with forward() vs the Lean 1-D line model of the theorem.
Oracle: the property's own scenario on the real code with the thresholds of the property (1e-3; 10 % Gaussian)."""
import numpy as np

from . import yee_api as Y
from .common import f2h, h2f

RULE = ("K-inject: every (axis, direction) of UniformPlaneSource (thorough: also GaussianPlaneSource) in a transversally "
        "periodic box (3..5 cells transverse, non-square; faces along the axis none or PML), homogeneous background "
        "eps_r/mu_r placed as a UniformMaterialObject, fixed E (or H) polarisation at a random transverse angle, CW or "
        "pulse profile, uniform or non-uniform grid, static_amplitude_factor, plane index from the seed; material arrays "
        "seen by the update overwritten with isotropic / diagonal / full 9-component random arrays; 2 (thorough 3) time steps each, "
        "OnOffSwitch default / delayed start / interval 2 (adjusted time step incl. the +0.5 of the H update, on-steps; thorough: no "
        "injection while off); forward update_E/update_H and (at the first probed step; thorough: every step) "
        "update_E_reverse/update_H_reverse; all cells of the plane compared (1e-9) with the Lean model (`inject`/`injectfull`), "
        "whose inputs (incident E/H per cell, Yee time offsets) are rebuilt in numpy independently of the source object "
        "(the temporal profile itself is evaluated through TemporalProfile.get_amplitude, its contract belongs to C41); "
        "the stored _E/_H/_time_offset_* of the source are also compared with that reconstruction. K-line: (2,2,n) "
        "periodic column, faces none along the axis, 6..10 steps of forward() vs the Lean `line` op for both "
        "polarisation pairs. Oracle (property scenario, thresholds as stated): 3x3 periodic cross-section, 10-cell PML "
        "along the axis, homogeneous background out of (eps_r, mu_r) = (1,1), (2.25,1), (1.5,2), (1,1.5), (3,1.5) (quick: one "
        "dielectric/vacuum, one MAGNETIC background, one source with a delayed-start OnOffSwitch (start_after_periods=3), one "
        "scene with dispersive (ADE) arrays allocated — Lorentz background the source sits in, or a dispersive slab elsewhere — "
        "where the stored H-side profile is also compared with the E-side profile); normalize_by_energy True and False (both in every run, in backgrounds with eps_r != 1 and "
        "mu_r != 1, in K and in the oracle); every source carries a non-zero "
        "WaveCharacter.phase_shift (+-pi/2, pi, random of both signs), >= 15 cells per wavelength in the medium, diagonal polarisation declared through fixed_E_ or fixed_H_polarization_vector "
        "(equal rates), PoyntingFluxDetector planes behind and in "
        "front, CW and pulse: time-integrated backward/forward power < 1e-3; quick: 2 of the 6 direction cases from the "
        "seed; thorough: all six x {CW, pulse} and GaussianPlaneSource (CW, radius 0.3..0.8 wavelengths, open space: PML on all faces, planes 10 cells away) < 10 %. "
        "non-trivial = every case (source on, non-zero increments).")

C0 = 299792458.0
LORENTZ_RATIO, LORENTZ_DELTA = 2.5, 1.0      # pole at 2.5 x carrier, delta_epsilon 1: eps(carrier) = eps_inf + 1/(1 - 1/2.5^2)


# ------------------------------------------------------------------------------------------ scene for K-inject
def gen_inject(rng, axis, direction, thorough, kind="uniform"):
    c = {"axis": axis, "direction": direction, "kind": kind}
    tr = rng.choice([(3, 4), (4, 3), (3, 5), (5, 4)]) if kind == "uniform" else rng.choice([(7, 9), (9, 7), (8, 10)])
    shape = [0, 0, 0]
    shape[axis] = rng.randint(5, 7)
    shape[(axis + 1) % 3], shape[(axis + 2) % 3] = tr
    c["shape"] = shape
    c["along"] = rng.choice(["none", "pml", "mixed"])
    c["k0"] = rng.randint(2, shape[axis] - 3) if c["along"] != "none" else rng.randint(0, shape[axis] - 1)
    c["widths"] = None
    if kind == "uniform" and rng.chance(0.35):
        c["widths"] = [[50e-9 * rng.uniform(0.7, 1.5) for _ in range(n)] for n in shape]
    th = rng.uniform(0.15, 1.4) * rng.choice([1.0, -1.0])
    pol = [0.0, 0.0, 0.0]
    pol[(axis + 1) % 3], pol[(axis + 2) % 3] = float(np.cos(th)) * 1.7, float(np.sin(th)) * 1.7   # not normalised
    c["pol"], c["use_h"] = pol, rng.chance(0.25)
    c["eps_r"], c["mu_r"] = rng.choice([1.0, 2.25, 3.0]), rng.choice([1.0, 1.0, 1.5])
    c["profile"] = rng.choice(["cw", "pulse"])
    c["amp"] = rng.uniform(0.5, 2.0)
    c["tier"] = rng.choice([1, 3, 3, 9])
    c["steps"] = sorted({rng.randint(0, 3), rng.randint(4, 12), rng.randint(13, 25)}) if thorough else \
        sorted({rng.randint(0, 6), rng.randint(7, 25)})
    c["complex"] = rng.chance(0.15)
    c["radius_cells"] = rng.uniform(2.2, 3.4)
    c["seed"] = rng.np_seed()
    c["phase"] = gen_phase(rng)
    c["normalize"] = rng.chance(0.5)       # normalize_by_energy of the source
    # non-default OnOffSwitch: update_E/update_H then go through adjust_time_step_by_on_off (and `+ 0.5` for H)
    c["switch"] = rng.choice(["default", "delayed", "interval2"])
    if c["switch"] == "delayed":
        c["n0"] = rng.randint(2, 9)
        c["steps"] = sorted({c["n0"] + x for x in (rng.randint(0, 2), rng.randint(3, 14))})
    elif c["switch"] == "interval2":
        c["steps"] = sorted({2 * (x // 2) for x in c["steps"]} | {2 * rng.randint(1, 12)})[:3 if thorough else 2]
    return c


def gen_phase(rng):
    """carrier phase of the WaveCharacter: never 0; the quadrature / inverted cases +-pi/2, pi are over-represented"""
    return float(rng.choice([np.pi / 2, -np.pi / 2, np.pi, rng.uniform(0.3, 2.8), -rng.uniform(0.3, 2.8)]))


def on_index(c, t):
    """(is_on, number of on-steps before t) of the case's switch at integer step t"""
    sw = c.get("switch", "default")
    if sw == "delayed":
        return t >= c["n0"], t - c["n0"]
    if sw == "interval2":
        return t % 2 == 0, t // 2
    return True, t


def adjusted_step(c, t):
    """time-step value the source sees: `t` on the always-on fast path, else adjust_time_step_by_on_off(t) =
    linear_interpolated_indexing at an integer point (two coincident corners of weight 1, sum/(2 + 1e-8))"""
    if c.get("switch", "default") == "default":
        return float(t)
    idx = on_index(c, t)[1]
    return (idx + idx) / (2 + 1e-8)


def build_plane_scene(c, time_steps=30, detectors=None, pml=2, spacing=50e-9, wavelength=6.0e-7, normalize=True):
    j = Y.J()
    f, jnp, jax = j["fdtdx"], j["jnp"], j["jax"]
    ax = c["axis"]
    faces = {k: ("pml" if c.get("transverse") == "pml" else "periodic") for k in Y.FACES}
    lo, hi = {"none": ("none", "none"), "pml": ("pml", "pml"), "mixed": ("pml", "none")}[c["along"]]
    faces[Y.FACES[2 * ax]], faces[Y.FACES[2 * ax + 1]] = lo, hi

    if c["widths"] is None:
        grid0 = f.UniformGrid(spacing=spacing)
    else:
        edges0 = [np.concatenate([[0.0], np.cumsum(np.asarray(w, dtype=np.float64))]) for w in c["widths"]]
        grid0 = f.RectilinearGrid(x_edges=jnp.asarray(edges0[0]), y_edges=jnp.asarray(edges0[1]), z_edges=jnp.asarray(edges0[2]))
    dt = float(f.SimulationConfig(time=1e-15, grid=grid0, dtype=jnp.float64, backend="cpu", courant_factor=0.99).time_step_duration)

    def extra(vol):
        objs, cons = [], []
        disp = c.get("dispersive")

        def lorentz(delta):
            """single Lorentz pole far above the carrier (weakly dispersive in band): allocates the ADE arrays, so the plane
            source takes its precomputed `_temporal_H_filter` path"""
            omega = 2.0 * np.pi * C0 / wavelength
            return f.DispersionModel(poles=(f.LorentzPole(resonance_frequency=LORENTZ_RATIO * omega, damping=1e12,
                                                          delta_epsilon=delta),))
        if c["eps_r"] != 1.0 or c["mu_r"] != 1.0 or disp == "background":
            mk = dict(permittivity=c["eps_r"], permeability=c["mu_r"])
            if disp == "background":
                mk["dispersion"] = lorentz(LORENTZ_DELTA)
            bg = f.UniformMaterialObject(partial_grid_shape=tuple(c["shape"]), name="bg", material=f.Material(**mk))
            objs.append(bg)
            cons.append(bg.place_at_center(vol))
        if disp == "elsewhere":
            # a (nearly transparent) dispersive slab away from the source: the source sits in non-dispersive cells, but the
            # simulation has dispersive arrays
            shp0 = [None, None, None]
            shp0[ax] = 2
            slab = f.UniformMaterialObject(partial_grid_shape=tuple(shp0), name="slab",
                                           material=f.Material(permittivity=c["eps_r"], permeability=c["mu_r"],
                                                               dispersion=lorentz(1e-3)))
            objs.append(slab)
            cons.append(slab.set_grid_coordinates(axes=ax, sides="-", coordinates=c["slab_pos"]))
        wave = f.WaveCharacter(wavelength=wavelength, phase_shift=float(c.get("phase", 0.0)))
        prof = f.SingleFrequencyProfile() if c["profile"] == "cw" else f.GaussianPulseProfile(
            spectral_width=f.WaveCharacter(wavelength=c.get("pulse_width_factor", 3) * wavelength), center_wave=wave)
        shp = [None, None, None]
        shp[ax] = 1
        sw = c.get("switch", "default")
        if sw == "delayed":          # K: on from step n0 on
            switch = f.OnOffSwitch(start_time=(c["n0"] - 0.5) * dt)
        elif sw == "interval2":
            switch = f.OnOffSwitch(interval=2)
        elif sw == "after_periods":  # oracle: the documented way, in periods of the carrier
            switch = f.OnOffSwitch(start_after_periods=c["start_periods"], period=wave.get_period())
        else:
            switch = f.OnOffSwitch()
        kw = dict(partial_grid_shape=tuple(shp), wave_character=wave, direction=c["direction"], temporal_profile=prof,
                  static_amplitude_factor=c["amp"], name="src", normalize_by_energy=bool(normalize and c.get("normalize", True)), switch=switch)
        kw["fixed_H_polarization_vector" if c["use_h"] else "fixed_E_polarization_vector"] = tuple(c["pol"])
        if c["kind"] == "uniform":
            src = f.UniformPlaneSource(**kw)
        else:
            src = f.GaussianPlaneSource(radius=c["radius_cells"] * spacing, **kw)
        objs.append(src)
        if c["widths"] is None:
            cons.append(src.set_grid_coordinates(axes=ax, sides="-", coordinates=c["k0"]))
        else:
            cons.append(src.place_relative_to(vol, axes=(ax,), own_positions=(-1.0,), other_positions=(-1.0,),
                                              margins=(float(np.sum(c["widths"][ax][:c["k0"]])),)))
        for name, pos, direction in (detectors or []):
            shp2 = [None, None, None]
            shp2[ax] = 1
            d = f.PoyntingFluxDetector(name=name, partial_grid_shape=tuple(shp2), direction=direction, dtype=jnp.float64,
                                       plot=False, reduce_volume=True)
            objs.append(d)
            cons.append(d.set_grid_coordinates(axes=ax, sides="-", coordinates=pos))
        return objs, cons
    sc = Y.build(c["shape"], faces, widths=c["widths"], spacing=spacing, pml_thickness=pml, extra_fn=extra,
                 complex_fields=True if c.get("complex") else None, time=(time_steps + 0.01) * dt, gradient=None)
    sc.source = [o for o in sc.objects.sources if o.name == "src"][0]
    sc.wavelength = wavelength
    sc.spacing = spacing
    return sc


# ------------------------------------------------------------------- numpy reconstruction of the incident wave
def oracle_incident(c, sc):
    """(incE, incH) of shape (3, *plane) and time offsets (offE, offH) of shape (3, *plane), rebuilt from the case"""
    ax = c["axis"]
    a, b = (ax + 1) % 3, (ax + 2) % 3
    k = np.zeros(3)
    k[ax] = 1.0 if c["direction"] == "+" else -1.0
    p = np.asarray(c["pol"], dtype=np.float64)
    p = p / np.linalg.norm(p)
    if c["use_h"]:
        h_pol = p
        e_pol = np.cross(h_pol, k)
    else:
        e_pol = p
        h_pol = np.cross(k, e_pol)
    shape = list(c["shape"])
    shape[ax] = 1
    ie, im = 1.0 / c["eps_r"], 1.0 / c["mu_r"]
    if c["kind"] == "uniform":
        prof = np.ones(shape)
    else:
        W, Hh = c["shape"][a], c["shape"][b]           # (horizontal, vertical) = oriented transverse axes
        cw, ch = 0.5 * (W - 1), 0.5 * (Hh - 1)
        r = c["radius_cells"]
        gw, gh = np.meshgrid(np.arange(W), np.arange(Hh), indexing="ij")
        d2 = ((gw - cw) / r) ** 2 + ((gh - ch) / r) ** 2
        hv = np.where(d2 < 1, np.exp(-0.5 * d2 / (1.0 / 3.0) ** 2), 0.0)
        hv = hv / hv.sum()
        # array axes in ascending order: (a, b) ascending unless the propagation axis is y, where (a, b) = (z, x)
        g = hv.T if a > b else hv
        prof = np.expand_dims(g, axis=ax)
    # the transverse profile passes through linear_interpolated_indexing at integer points (four coincident corners of
    # weight 1, sum / (4 + 1e-8)); invisible after the energy normalisation, a factor 1 - 2.5e-9 without it
    if c["widths"] is None:      # (the non-uniform path interpolates on physical coordinates, exactly)
        prof = prof * (4.0 / (4.0 + 1e-8))
    E = prof[None] * e_pol[:, None, None, None]
    H = prof[None] * h_pol[:, None, None, None]
    energy = 0.5 * (E ** 2 / ie).sum(axis=0) + 0.5 * (H ** 2 / im).sum(axis=0)
    if c.get("normalize", True):          # normalize_by_energy
        root = np.sqrt(energy.sum())
        E, H = E / root, H / root
    H = H / np.sqrt(ie / im)               # impedance matching, with or without the energy normalisation
    # Yee time offsets: E_c sits half a cell along c, H_c half a cell along the two other axes; travel = -x.k / v
    dt = float(sc.config.time_step_duration)
    if c["widths"] is None:
        half = 0.5 * sc.spacing
    else:
        half = 0.5 * float(c["widths"][ax][c["k0"]])
    n_refr = 1.0 / np.sqrt(ie * im)
    offE, offH = np.zeros((3,) + tuple(shape)), np.zeros((3,) + tuple(shape))
    sgn = k[ax]
    for comp in range(3):
        posE = half if comp == ax else 0.0
        posH = 0.0 if comp == ax else half
        offE[comp] = -(posE * sgn) / (C0 / n_refr * dt)
        offH[comp] = -(posH * sgn) / (C0 / n_refr * dt)
    return E, H, offE, offH


def amplitudes(sc, c, t, off):
    """profile(t + off) * static_amplitude_factor through the TemporalProfile of the placed source
    (t is the time-step value handed to the source: n for update_E, n + 0.5 for update_H)"""
    j = Y.J()
    jnp = j["jnp"]
    s = sc.source
    dt = float(sc.config.time_step_duration)
    v = s.temporal_profile.get_amplitude(time=(float(t) + jnp.asarray(off)) * dt,
                                         period=s.wave_character.get_period(), phase_shift=float(c.get("phase", 0.0)))
    return np.asarray(v, dtype=np.float64) * c["amp"]


def probe_arrays(c, sc):
    r = np.random.default_rng(c["seed"])
    nx, ny, nz = c["shape"]
    if c["tier"] == 9:
        def spd(lo, hi):
            A = r.uniform(-0.25, 0.25, (3, 3, nx, ny, nz))
            T = np.einsum("ik...,jk...->ij...", A, A) + r.uniform(lo, hi, (1, 1, nx, ny, nz)) * np.eye(3)[:, :, None, None, None]
            return T.reshape(9, nx, ny, nz)
        return spd(0.3, 0.8), spd(0.5, 0.9)
    ie = r.uniform(0.2, 1.0, (c["tier"], nx, ny, nz))
    im = r.uniform(0.4, 1.0, (c["tier"], nx, ny, nz)) if r.random() < 0.7 else None
    return ie, im


def k_inject(ctx, c, sample=False):
    j = Y.J()
    jnp = j["jnp"]
    from fdtdx.fdtd.update import update_E, update_H, update_E_reverse, update_H_reverse
    sc = build_plane_scene(c)
    src = sc.source
    ax = c["axis"]
    incE, incH, offE, offH = oracle_incident(c, sc)
    # the stored incident profile / offsets of the source object vs the reconstruction
    ctx.expect_close("source._E vs numpy reconstruction", c, np.asarray(src._E).ravel(), incE.ravel(), floor=float(np.max(np.abs(incE))))
    ctx.expect_close("source._H vs numpy reconstruction", c, np.asarray(src._H).ravel(), incH.ravel(), floor=float(np.max(np.abs(incH))))
    tr = [x for x in range(3) if x != ax]
    ctx.expect_close("time_offset_E (transverse) vs numpy", c, np.asarray(src._time_offset_E)[tr].ravel(), offE[tr].ravel())
    ctx.expect_close("time_offset_H (transverse) vs numpy", c, np.asarray(src._time_offset_H)[tr].ravel(), offH[tr].ravel())
    nx, ny, nz = c["shape"]
    ie, im = probe_arrays(c, sc)
    zeros = np.zeros((3, nx, ny, nz), dtype=np.complex128 if c["complex"] else np.float64)
    arrays = Y.with_state(sc, zeros, zeros, ie, im)
    if im is None:
        # the placed background permeability stays in force (scalar 1.0 or a 1-/3-component array)
        im0 = np.asarray(arrays.inv_permeabilities, dtype=np.float64)
        im = im0 if im0.ndim == 4 else np.full((1, nx, ny, nz), float(im0))
    idx = [slice(None)] * 3
    idx[ax] = c["k0"]
    idx = tuple(idx)
    cfg = sc.config
    if c["widths"] is None:
        grid_tok = ["u"]
    else:
        w = c["widths"][ax]
        ref = C0 * float(cfg.time_step_duration) / float(cfg.courant_number)
        grid_tok = ["n", f2h(ref), f2h(w[c["k0"]]), f2h(w[max(c["k0"] - 1, 0)])]
    lines, expect = [], []
    # the switch bookkeeping of the placed source vs the case (on-steps, on-index)
    if c.get("switch", "default") != "default":
        T = int(cfg.time_steps_total)
        ctx.expect_equal("source on-steps", c, [bool(x) for x in np.asarray(src._is_on_at_time_step_arr)][:T],
                         [bool(on_index(c, u)[0]) for u in range(T)])
        off_steps = [u for u in range(min(T, 12)) if not on_index(c, u)[0]]
        if off_steps and ctx.thorough:
            u = jnp.asarray(off_steps[-1], dtype=jnp.int32)
            if np.any(np.asarray(update_E(u, arrays, sc.objects, cfg, True).fields.E) != 0) or \
                    np.any(np.asarray(update_H(u, arrays, sc.objects, cfg, True).fields.H) != 0):
                ctx.mismatch("source injects while switched off", c, {"t": off_steps[-1]})
    for t in c["steps"]:
        tt = jnp.asarray(t, dtype=jnp.int32)
        # the sources see the on/off-adjusted step; update_H / update_H_reverse hand `… + 0.5` (H lives at half steps)
        ta = adjusted_step(c, t)
        ampE, ampH = amplitudes(sc, c, ta + 0.5, offE), amplitudes(sc, c, ta, offH)
        for inverse in ((False, True) if (ctx.thorough or t == c["steps"][0]) else (False,)):
            if not inverse:
                dE = np.asarray(update_E(tt, arrays, sc.objects, cfg, True).fields.E)
                dH = np.asarray(update_H(tt, arrays, sc.objects, cfg, True).fields.H)
            else:
                # reverse updates on zero fields without conductivity: remove the source term, nothing else → −increment
                dE = np.asarray(update_E_reverse(tt, arrays, sc.objects, cfg).fields.E)
                dH = np.asarray(update_H_reverse(tt, arrays, sc.objects, cfg).fields.H)
            if c["complex"]:
                if np.max(np.abs(dE.imag)) > 0 or np.max(np.abs(dH.imag)) > 0:
                    ctx.mismatch("quadrature branch taken for a real incident profile", c, "imaginary increment")
                dE, dH = dE.real, dH.real
            # nothing outside the plane
            mask = np.ones((nx, ny, nz), dtype=bool)
            mask[idx] = False
            if np.any(dE[:, mask] != 0) or np.any(dH[:, mask] != 0):
                ctx.mismatch("increment outside the source plane", c, {"t": t})
            pE, pH = dE[(slice(None),) + idx], dH[(slice(None),) + idx]      # (3, p, q)
            P, Q = pE.shape[1:]
            cells = [(u, v) for u in range(P) for v in range(Q)]
            for (u, v) in cells:
                cell = [u, v]
                cell.insert(ax, 0)
                cell = tuple(cell)
                full_idx = list(cell)
                full_idx[ax] = c["k0"]
                full_idx = tuple(full_idx)
                vals = [float(cfg.courant_number)]
                vals += [incE[(q,) + cell] for q in range(3)] + [incH[(q,) + cell] for q in range(3)]
                vals += [ampE[(q,) + cell] for q in range(3)] + [ampH[(q,) + cell] for q in range(3)]
                if c["tier"] == 9:
                    vals += [ie[(q,) + full_idx] for q in range(9)] + [im[(q,) + full_idx] for q in range(9)]
                    op = "injectfull"
                else:
                    iev = [ie[(q if ie.shape[0] == 3 else 0,) + full_idx] for q in range(3)]
                    imv = [im[(q if im.shape[0] == 3 else 0,) + full_idx] for q in range(3)]
                    vals += iev + imv
                    op = "inject"
                lines.append(" ".join([op, str(ax), "1" if c["direction"] == "+" else "0", "1" if inverse else "0"] + grid_tok
                                      + [f2h(x) for x in vals]))
                expect.append(np.concatenate([pE[:, u, v], pH[:, u, v]]))
    replies = ctx.driver.ask_many(lines)
    model = np.array([[h2f(x) for x in r.split()] for r in replies])
    impl = np.array(expect)
    scale = float(np.max(np.abs(impl)))
    ctx.expect_close("update_E/update_H increments vs model inject", c, impl.ravel(), model.ravel(), floor=max(scale, 1e-300))
    nontrivial = scale > 0
    if not nontrivial:
        ctx.mismatch("source never on", c, "all probed increments are zero")
    ctx.case(sample=c if sample else None, nontrivial=(c["axis"], c["direction"], c["seed"]),
             **{f"axis{c['axis']}{c['direction']}": True, "kind": c["kind"], "tier": c["tier"], "along": c["along"],
                "grid": "nonuniform" if c["widths"] else "uniform", "profile": c["profile"], "pol_given": "H" if c["use_h"] else "E",
                "complex_fields": c["complex"], "k0_is_0": c["k0"] == 0, "switch": c.get("switch", "default"),
                "normalize_by_energy": c.get("normalize", True)})


# ------------------------------------------------------------------------------------------------ K-line
def gen_line(rng, axis, direction):
    n = rng.randint(6, 9)
    # cross-section 2x2 (calculate_time_offset_yee locates the propagation axis as the FIRST size-1 axis of the source
    # slice, so a size-1 transverse axis would only add a common time shift to all offsets — avoided here)
    shape = [2, 2, 2]
    shape[axis] = n
    th = rng.uniform(0.3, 1.2)
    pol = [0.0, 0.0, 0.0]
    pol[(axis + 1) % 3], pol[(axis + 2) % 3] = float(np.cos(th)), float(np.sin(th))
    return {"axis": axis, "direction": direction, "kind": "uniform", "shape": shape, "along": "none", "k0": rng.randint(0, n - 1),
            "widths": None if rng.chance(0.6) else [[50e-9 * rng.uniform(0.7, 1.5) for _ in range(m)] if i == axis else [50e-9] * m
                                                    for i, m in enumerate(shape)],
            "pol": pol, "use_h": False, "eps_r": rng.choice([1.0, 2.25]), "mu_r": 1.0, "profile": rng.choice(["cw", "pulse"]),
            "amp": rng.uniform(0.5, 2.0), "complex": False, "nsteps": rng.randint(6, 10), "seed": rng.np_seed(), "line": True,
            "phase": gen_phase(rng)}


def k_line(ctx, c):
    j = Y.J()
    sc = build_plane_scene(c)
    ax = c["axis"]
    a, b = (ax + 1) % 3, (ax + 2) % 3
    n = c["shape"][ax]
    r = np.random.default_rng(c["seed"])
    iex, imx = r.uniform(0.3, 1.0, (3, n)), r.uniform(0.5, 1.0, (3, n))      # per-cell media along the line

    def lift(v):
        shp = [3, 1, 1, 1]
        shp[ax + 1] = n
        return np.broadcast_to(v.reshape(shp), (3,) + tuple(c["shape"])).copy()

    def column(F):
        """the line through transverse cell (0,0); all columns must agree (transversally uniform)"""
        G = np.moveaxis(np.asarray(F), ax + 1, 1).reshape(3, n, -1)
        if np.max(np.abs(G - G[:, :, :1])) > 1e-12 * max(1e-300, float(np.max(np.abs(G)))):
            ctx.mismatch("field not transversally uniform", c, "columns differ")
        return G[:, :, 0]
    zeros = np.zeros((3,) + tuple(c["shape"]))
    arrays = Y.with_state(sc, zeros, zeros, lift(iex), lift(imx))
    st = Y.impl_forward(sc, arrays, t=0, n=c["nsteps"])
    E, H = column(st[1].fields.E), column(st[1].fields.H)
    incE, incH, offE, offH = oracle_incident(c, sc)
    cfg = sc.config
    if c["widths"] is None:
        sf = sb = np.ones(n)
    else:
        w = np.asarray(c["widths"][ax])
        ref = C0 * float(cfg.time_step_duration) / float(cfg.courant_number)
        sf = ref / w
        sb = ref / (0.5 * (w + np.concatenate([w[:1], w[:-1]])))
    s = 1.0 if c["direction"] == "+" else -1.0
    ampE = np.array([amplitudes(sc, c, t + 0.5, offE).reshape(3, -1)[:, 0] for t in range(c["nsteps"])])
    ampH = np.array([amplitudes(sc, c, t, offH).reshape(3, -1)[:, 0] for t in range(c["nsteps"])])
    iE, iH = incE.reshape(3, -1)[:, 0], incH.reshape(3, -1)[:, 0]
    worst = 0.0
    for q, ec, hc in ((1.0, a, b), (-1.0, b, a)):
        hinc = iH[hc] * ampH[:, hc]
        einc = iE[ec] * ampE[:, ec]
        vals = [q, s, float(cfg.courant_number)] + list(sf) + list(sb) + list(iex[ec]) + list(imx[hc]) + list(hinc) + list(einc) \
            + [0.0] * (2 * n)
        line = " ".join(["line", str(n), str(c["k0"]), str(c["nsteps"])] + [f2h(x) for x in vals])
        rep = np.array([h2f(x) for x in ctx.driver.ask(line).split()])
        impl = np.concatenate([E[ec], H[hc]])
        ctx.expect_close(f"forward() column vs model line (q={q:+.0f})", c, impl, rep, floor=max(1e-300, float(np.max(np.abs(impl)))))
        worst = max(worst, float(np.max(np.abs(impl))))
    # normal components stay zero
    if np.max(np.abs(E[ax])) > 0 or np.max(np.abs(H[ax])) > 0:
        ctx.mismatch("normal component excited by a normal-incidence plane source", c, "non-zero")
    ctx.case(nontrivial=("line", c["axis"], c["direction"], c["seed"]), line=True, **{f"line_axis{c['axis']}{c['direction']}": True})
    if worst == 0:
        ctx.mismatch("line scene stayed zero", c, "no field")


# ------------------------------------------------------------------------------------------------ oracle
MEDIA = [(1.0, 1.0), (2.25, 1.0), (1.5, 2.0), (1.0, 1.5), (3.0, 1.5)]     # homogeneous backgrounds (eps_r, mu_r)


def gen_oracle(rng, axis, direction, profile, kind="uniform", medium=None, delayed=False, use_h=None, pol=None,
               dispersive=None, phase=None, normalize=None):
    th = rng.uniform(0.5, 1.1) * rng.choice([1.0, -1.0])      # diagonal polarisation
    own = [0.0, 0.0, 0.0]
    own[(axis + 1) % 3], own[(axis + 2) % 3] = float(np.cos(th)), float(np.sin(th))
    pol = own if pol is None else [float(x) for x in pol]
    cpw = rng.choice([15, 16, 18, 20])
    # the polarisation is declared through fixed_E_polarization_vector or fixed_H_polarization_vector at the same rate
    h_declared = rng.chance(0.5)
    use_h = h_declared if use_h is None else bool(use_h)
    c = {"axis": axis, "direction": direction, "kind": kind, "profile": profile, "pol": pol, "use_h": use_h,
         "amp": 1.0, "widths": None, "along": "pml", "complex": False,
         "cells_per_wavelength": cpw, "oracle": True, "seed": rng.np_seed()}
    own_phase = gen_phase(rng)
    c["phase"] = own_phase if phase is None else float(phase)
    c["dispersive"] = dispersive
    own_norm = rng.chance(0.5)
    c["normalize"] = own_norm if normalize is None else bool(normalize)      # normalize_by_energy
    # dielectric AND magnetic homogeneous backgrounds: the injected E/H ratio must be the impedance sqrt(mu/eps) of the
    # medium, which differs from the dielectric-only value exactly when mu_r != 1
    c["eps_r"], c["mu_r"] = medium if medium is not None else rng.choice(MEDIA)
    if dispersive == "background" and c["eps_r"] < 2.0:
        # coupled field/polarisation stability at courant_factor 0.99 needs courant^2/(eps_inf mu) + pole term < 1:
        # 1.02 for eps_inf = 1 (placement warns), 0.45 for eps_inf = 2.25
        c["eps_r"] = 2.25
    if delayed:
        # non-default OnOffSwitch: the source starts after 3 carrier periods (path through adjust_time_step_by_on_off)
        c["switch"], c["start_periods"] = "after_periods", 3.0
    if kind == "gauss":
        c["eps_r"], c["mu_r"] = 1.0, 1.0
        c["radius_wl"] = rng.choice([0.3, 0.35, 0.45, 0.8])
        c["gap"] = 10      # planes a good half wavelength away from the (sub-wavelength, std = r/3) spot
    return c


LAST = {}


def oracle_ratio(c):
    """time-integrated power through the plane behind the source / through the plane in front of it"""
    j = Y.J()
    ax = c["axis"]
    cpw = c["cells_per_wavelength"]
    spacing = 50e-9
    eps_eff = c["eps_r"] + (LORENTZ_DELTA / (1.0 - 1.0 / LORENTZ_RATIO ** 2) if c.get("dispersive") == "background" else 0.0)
    n_med = np.sqrt(eps_eff * c["mu_r"])
    wavelength = cpw * spacing * n_med                      # vacuum wavelength such that the medium sees cpw cells
    pml, gap = 10, c.get("gap", 5)
    n_ax = 2 * pml + 4 * gap + 1
    if c["kind"] == "uniform":
        tr = (3, 3)
    else:
        # a Gaussian beam in open space: PML on the transverse faces too (a transversally periodic box whose period is
        # close to one wavelength turns the beam into a grating at its Rayleigh anomaly: 18 % backward at period 1.05 lambda)
        r_cells = c["radius_wl"] * cpw
        m = int(2 * np.ceil(r_cells) + 3) + 2 * (pml + 3)
        tr = (m, m + 1)
    shape = [0, 0, 0]
    shape[ax] = n_ax
    shape[(ax + 1) % 3], shape[(ax + 2) % 3] = tr
    k0 = pml + 2 * gap
    cc = dict(c, shape=shape, k0=k0, pulse_width_factor=4)
    cc["slab_pos"] = (k0 + gap + 2) if c["direction"] == "+" else (k0 - gap - 4)      # beyond the front plane
    if c["kind"] == "gauss":
        cc["radius_cells"] = c["radius_wl"] * cpw
        cc["transverse"] = "pml"
    lo_pos, hi_pos = k0 - gap, k0 + gap
    front, back = (hi_pos, lo_pos) if c["direction"] == "+" else (lo_pos, hi_pos)
    opp = "-" if c["direction"] == "+" else "+"
    # CW: ramp-up of 4 periods + a few periods of steady state; pulse: centre at 6 sigma_t + 5 sigma_t tail
    period_steps = cpw * n_med * np.sqrt(3.0) / 0.99
    steps = int(((7 if c["profile"] == "cw" else 8) + c.get("start_periods", 0.0)) * period_steps) + 6 * gap
    sc = build_plane_scene(cc, time_steps=steps, detectors=[("front", front, c["direction"]), ("back", back, opp)],
                           pml=pml, spacing=spacing, wavelength=wavelength)
    LAST.clear()
    if c.get("dispersive"):
        # time alignment of the two incident profiles: the precomputed H-side profile (`_temporal_H_filter`, injected into
        # E) must carry the same carrier phase as the E-side profile evaluated on the fly (injected into H)
        src = sc.source
        filt = src._temporal_H_filter
        LAST["has_filter"] = filt is not None
        if filt is not None:
            jnp = j["jnp"]
            T = int(sc.config.time_steps_total)
            raw = np.asarray(src.temporal_profile.get_amplitude(time=jnp.arange(T) * float(sc.config.time_step_duration),
                                                                 period=src.wave_character.get_period(),
                                                                 phase_shift=float(c["phase"])), dtype=np.float64)
            filt = np.asarray(filt, dtype=np.float64)
            LAST["filter_len_ok"] = filt.shape == raw.shape
            if filt.shape == raw.shape:
                scale = max(1e-300, float(np.max(np.abs(raw))))
                LAST["filter_vs_raw"] = float(np.max(np.abs(filt - raw))) / scale
    t, out = j["fdtdx"].run_fdtd(arrays=sc.arrays, objects=sc.objects, config=sc.config, key=j["jax"].random.PRNGKey(0),
                                 show_progress=False)
    pf = np.asarray(out.detector_states["front"]["poynting_flux"]).reshape(-1)
    pb = np.asarray(out.detector_states["back"]["poynting_flux"]).reshape(-1)
    fwd, bwd = float(np.sum(pf)), float(np.sum(pb))
    return bwd, fwd, steps


def oracle_fails(c):
    bwd, fwd, steps = oracle_ratio(c)
    limit = 1e-3 if c["kind"] == "uniform" else 0.1
    if not (fwd > 0):
        return f"no forward power through the plane in front of the source (forward={fwd:.3e}, backward={bwd:.3e}, {steps} steps)"
    ratio = abs(bwd) / fwd
    if not ratio < limit:
        return f"backward/forward power = {ratio:.3e} >= {limit:g} (forward={fwd:.3e}, backward={bwd:.3e}, {steps} steps)"
    return None


def oracle_case(ctx, c):
    ctx.impl_property_evals += 1
    bwd, fwd, steps = oracle_ratio(c)
    limit = 1e-3 if c["kind"] == "uniform" else 0.1
    ratio = abs(bwd) / fwd if fwd > 0 else float("inf")
    if c.get("dispersive"):
        # K of the E-side vs H-side profile: with the source in non-dispersive cells the H-side filter is the identity, so the
        # stored profile must equal the carrier-phase-shifted raw profile sample by sample; in a dispersive background the
        # impedance filter G = sqrt(eps(w)/eps(w_c)) is 1 at the carrier, so it stays within a few per cent of it
        ctx.expect_equal("dispersive arrays allocated: source uses the precomputed H-side profile", c, LAST.get("has_filter"), True)
        ctx.expect_equal("H-side profile length", c, LAST.get("filter_len_ok"), True)
        dev = LAST.get("filter_vs_raw", float("inf"))
        lim = 1e-12 if c["dispersive"] == "elsewhere" else 0.15
        if not dev <= lim:
            ctx.mismatch("H-side profile (_temporal_H_filter) vs E-side profile with the carrier phase", c, {"relerr": dev, "tol": lim})
    ctx.extra.setdefault("oracle_ratios", []).append({"axis": c["axis"], "direction": c["direction"], "kind": c["kind"],
                                                      "profile": c["profile"], "eps_r": c["eps_r"], "mu_r": c["mu_r"], "switch": c.get("switch", "default"),
                                                      "use_h": c["use_h"], "phase": round(c.get("phase", 0.0), 3),
                                                      "dispersive": c.get("dispersive"), "normalize": c.get("normalize", True), "ratio": ratio,
                                                      "steps": steps})
    ctx.case(nontrivial=("oracle", c["axis"], c["direction"], c["profile"], c["kind"]), oracle=c["kind"] + "/" + c["profile"],
             oracle_medium=f"eps{c['eps_r']}/mu{c['mu_r']}", oracle_switch=c.get("switch", "default"), oracle_pol_given="H" if c["use_h"] else "E", oracle_dispersive=str(c.get("dispersive")), oracle_normalize_by_energy=c.get("normalize", True),
             **{f"oracle_axis{c['axis']}{c['direction']}": True})
    if not (fwd > 0) or not ratio < limit:
        ctx.violation(c, oracle_fails(c) or f"ratio {ratio:.3e}")


SIX = [(a, d) for a in range(3) for d in ("+", "-")]


def run(ctx):
    rng = ctx.rng
    order = rng.shuffle(SIX)
    # K-inject: all six cases
    for i, (a, d) in enumerate(SIX):
        # quick: one of the six directions (from the seed) uses the Gaussian source instead of the uniform one
        kind = "gauss" if (not ctx.thorough and (a, d) == order[5]) else "uniform"
        ci = gen_inject(rng, a, d, ctx.thorough, kind=kind)
        if i < 2:     # both values of normalize_by_energy in a background with eps_r != 1 and mu_r != 1, in every run
            ci.update(normalize=(i == 1), eps_r=[2.25, 3.0][i], mu_r=1.5)
        k_inject(ctx, ci, sample=i < 2)
        if ctx.thorough:
            for _ in range(3):
                k_inject(ctx, gen_inject(rng, a, d, True))
            k_inject(ctx, gen_inject(rng, a, d, True, kind="gauss"))
    # K-line
    for (a, d) in (SIX if ctx.thorough else order[2:3]):
        k_line(ctx, gen_line(rng, a, d))
    # oracle
    if ctx.thorough:
        for (a, d) in SIX:
            for prof in ("cw", "pulse"):
                oracle_case(ctx, gen_oracle(rng, a, d, prof))
        for (a, d) in order[:2]:
            oracle_case(ctx, gen_oracle(rng, a, d, "cw", kind="gauss"))
        for (a, d) in SIX:
            oracle_case(ctx, gen_oracle(rng, a, d, rng.choice(["cw", "pulse"]), delayed=True))
        for i, (a, d) in enumerate(SIX):
            for disp in ("background", "elsewhere"):
                oracle_case(ctx, gen_oracle(rng, a, d, rng.choice(["cw", "pulse"]), medium=rng.choice(MEDIA[:3]), dispersive=disp,
                                            phase=[np.pi / 2, -np.pi / 2, np.pi, None, None, None][(i + (disp == "elsewhere")) % 6]))
    else:
        (a1, d1), (a2, d2) = order[0], order[1]
        c1 = gen_oracle(rng, a1, d1, "cw", medium=rng.choice(MEDIA[:2]))
        oracle_case(ctx, c1)
        # magnetic background; polarisation declared the other way (E- vs H-given) than in the first scene
        # … and normalize_by_energy = False / True in backgrounds with eps_r != 1 AND mu_r != 1 (this scene and the next)
        oracle_case(ctx, gen_oracle(rng, a2, d2, "pulse", medium=rng.choice([MEDIA[2], MEDIA[4]]), use_h=not c1["use_h"],
                                    normalize=False))
        a3, d3 = order[2]
        oracle_case(ctx, gen_oracle(rng, a3, d3, "cw", medium=rng.choice([MEDIA[2], MEDIA[4]]), delayed=True,
                                    normalize=True))   # switched source
        # dispersive arrays allocated (Lorentz background the source sits in, or a dispersive slab elsewhere): the source
        # takes its precomputed H-side profile; carrier phase from the quadrature / inverted / random set
        a4, d4 = order[3]
        oracle_case(ctx, gen_oracle(rng, a4, d4, rng.choice(["cw", "pulse"]), medium=MEDIA[0],
                                    dispersive=rng.choice(["background", "elsewhere"])))


def search(ctx, hints):
    rng = ctx.rng.fork()
    # hinted K cases carry axis/direction: evaluate the property scenario for those directions first
    todo = []
    for h in hints:
        if isinstance(h, dict) and "axis" in h:
            if h.get("oracle"):
                todo.append(h)
            else:
                # the property's own scenario for exactly this source: same axis, direction, declared polarisation (E- or
                # H-given, same vector), medium, profile, switch kind, amplitude; then the other profile
                med = (float(h.get("eps_r", 1.0)), float(h.get("mu_r", 1.0)))
                sw = h.get("switch", "default") != "default"
                first = h.get("profile", "cw")
                for prof in (first, "pulse" if first == "cw" else "cw"):
                    o = gen_oracle(rng, h["axis"], h["direction"], prof, medium=med, delayed=sw, use_h=h.get("use_h", False),
                                   pol=h.get("pol"), phase=h.get("phase"), dispersive=h.get("dispersive"),
                                   normalize=h.get("normalize"))
                    o["amp"] = float(h.get("amp", 1.0))
                    todo.append(o)
                if h.get("kind") == "gauss":      # the 10 % bound is a statement about the carrier wavelength: CW only
                    todo.append(gen_oracle(rng, h["axis"], h["direction"], "cw", kind="gauss", use_h=h.get("use_h", False),
                                           pol=h.get("pol")))
    seen = set()
    for i, (a, d) in enumerate(SIX):
        for prof in ("cw", "pulse"):
            todo.append(gen_oracle(rng, a, d, prof, medium=MEDIA[(i + (prof == "pulse")) % len(MEDIA)]))
        todo.append(gen_oracle(rng, a, d, "cw", medium=MEDIA[0], delayed=True))
        todo.append(gen_oracle(rng, a, d, "cw", medium=MEDIA[0], dispersive=["background", "elsewhere"][i % 2]))
    for (a, d) in SIX[:2]:
        todo.append(gen_oracle(rng, a, d, "cw", kind="gauss"))
    for c in todo:
        key = (c["axis"], c["direction"], c["profile"], c["kind"], c["eps_r"], c["mu_r"], c.get("switch", "default"),
               c["use_h"], c.get("dispersive"), c.get("normalize", True))
        if key in seen:
            continue
        seen.add(key)
        ctx.impl_property_evals += 1
        try:
            d = oracle_fails(c)
        except Exception as e:
            ctx.notes.append(f"search: oracle scene raised {type(e).__name__}: {str(e)[:200]}")
            d = None
        if d:
            ctx.violation(c, d)
            return


def replay(ctx, inp):
    return oracle_fails(inp)
