"""C41 — WaveCharacter / temporal profiles / envelopes vs lean/FdtdxModel/C41.lean"""
import math

from .common import f2h, h2fs

RULE = ("K, five streams on the real classes in float64: (wave) WaveCharacter with exactly one / none / two / three of period, "
        "wavelength, frequency (optical, RF and O(1) magnitudes), all three getters; (cw) SingleFrequencyProfile.get_amplitude "
        "on time arrays covering t<0, the ramp, its end and beyond, num_startup_periods in {1,2,4,7,0.5}, random phases; "
        "num_startup_periods = 0 is probed separately as an excluded point (NaN at t=0, recorded, not compared); (gauss) "
        "GaussianPulseProfile with spectral width / centre wave given as any of the three quantities, times around the peak "
        "6*sigma, and the ValueError for a spectral width with a phase shift; (genv) GaussianWindow.get_window incl. "
        "sigma<=0 errors; (custom) CustomTimeSignalProfile with dyadic dt/start so that sample times are exact, times at "
        "samples, between samples (fractions 0.25/0.5/0.75 and random), before the first, after the last sample, both "
        "interpolation modes, outside_value, signal dtypes float64 / float32 / int32 / Python int list / 0-1 list / Python float list "
        "(20 forced linear-mode cases of the non-float64 kinds in every quick run, neighbouring samples distinct), and the four constructor errors. Model compared to 1e-9 (exactly for custom). "
        "Independent oracle: period*frequency = 1, wavelength = c*period; |amplitude| <= 1; ramp value 0 for t<=0, t/(n*T) "
        "inside, 1 after; envelope in (0,1] with 1 at the centre; custom signal exact at samples, linear between. "
        "non-trivial = every case except a WaveCharacter given by its period.")

_env = None


def E():
    global _env
    if _env is None:
        import jax
        jax.config.update("jax_enable_x64", True)
        import jax.numpy as jnp
        import numpy as np
        import fdtdx
        from fdtdx import constants
        from fdtdx.core.window import GaussianWindow
        from fdtdx.objects.sources.profile import CustomTimeSignalProfile, GaussianPulseProfile, SingleFrequencyProfile
        _env = dict(jnp=jnp, np=np, W=fdtdx.WaveCharacter, c=constants.c, CW=SingleFrequencyProfile, GP=GaussianPulseProfile,
                    CT=CustomTimeSignalProfile, GW=GaussianWindow)
    return _env


TWO_PI = 2 * math.pi


def arr(ts):
    e = E()
    return e["jnp"].asarray(ts, dtype=e["jnp"].float64)


def lst(a):
    return [float(x) for x in E()["np"].asarray(a, dtype=float).ravel()]


def opt(x):
    return "-" if x is None else f2h(x)


# ------------------------------------------------------------------------------------------------ wave
def gen_wave(rng, valid_only=False):
    scale = rng.choice(["optical", "rf", "unit"])
    f = {"optical": rng.uniform(1e14, 8e14), "rf": rng.uniform(1e8, 5e10), "unit": rng.uniform(0.2, 5.0)}[scale]
    c = E()["c"]
    vals = {"period": 1.0 / f, "wavelength": c / f * rng.choice([1.0, 1.0, 1.7]), "frequency": f}
    k = rng.randint(0, 9) if not valid_only else rng.randint(0, 6)
    if k <= 6:
        keys = [["period", "wavelength", "frequency"][k % 3]]
    elif k == 7:
        keys = []
    elif k == 8:
        keys = rng.shuffle(["period", "wavelength", "frequency"])[:2]
    else:
        keys = ["period", "wavelength", "frequency"]
    return {kk: vals[kk] for kk in keys}


def impl_wave(kw):
    e = E()
    try:
        w = e["W"](**kw)
    except Exception:  # noqa: BLE001 — the class raises a bare Exception
        return None
    return [float(w.get_period()), float(w.get_wavelength()), float(w.get_frequency())]


def wave_property(kw, got):
    c = E()["c"]
    if got is None:
        return None if len(kw) != 1 else f"WaveCharacter({kw}) raised"
    if len(kw) != 1:
        return f"WaveCharacter({kw}) accepted {len(kw)} of period/wavelength/frequency"
    p, l, f = got
    if abs(p * f - 1.0) > 1e-12:
        return f"period*frequency = {p * f!r} for WaveCharacter({kw})"
    if abs(l - c * p) > 1e-12 * abs(l):
        return f"wavelength {l!r} != c*period {c * p!r} for WaveCharacter({kw})"
    (k, v), = kw.items()
    if {"period": p, "wavelength": l, "frequency": f}[k] != v:
        return f"WaveCharacter({kw}) does not return the given {k}"
    return None


# -------------------------------------------------------------------------------------------------- cw
def gen_cw(rng):
    period = rng.choice([1.0, 2.5, 3.3e-15, 5e-15, rng.uniform(0.5, 4.0)])
    ns = rng.choice([1, 2, 4, 4, 7, 0.5])
    D = ns * period
    ts = [0.0, D, D / 2, D / 4, -0.3 * D, -period, D * (1 + 1e-9), D * (1 - 1e-9), 1.5 * D, 3 * D + 0.123 * period]
    ts += [rng.uniform(-1.0, 3.0) * D for _ in range(6)]
    return {"stream": "cw", "period": period, "ns": ns, "self_phase": rng.choice([math.pi, 0.0, rng.uniform(-3, 3)]),
            "phase": rng.choice([0.0, 0.0, rng.uniform(-3, 3)]), "times": ts}


def impl_cw(case):
    e = E()
    p = e["CW"](phase_shift=case["self_phase"], num_startup_periods=case["ns"])
    return lst(p.get_amplitude(arr(case["times"]), case["period"], case["phase"]))


def cw_property(case, got):
    D = case["ns"] * case["period"]
    for t, a in zip(case["times"], got):
        ramp = min(max(t / D, 0.0), 1.0)
        car = math.cos(TWO_PI * t / case["period"] + case["phase"] + case["self_phase"])
        if not abs(a) <= 1.0 + 1e-12:
            return f"|amplitude| = {abs(a)!r} > 1 at t={t!r}"
        if t <= 0 and a != 0.0:
            return f"amplitude {a!r} before the start (t={t!r})"
        if abs(a - ramp * car) > 1e-9:
            return f"amplitude {a!r} at t={t!r}, ramp*carrier = {ramp * car!r} (ramp {ramp!r})"
    return None


# ----------------------------------------------------------------------------------------------- gauss
def wave_desc(rng, f, phase=0.0):
    c = E()["c"]
    k = rng.choice(["frequency", "period", "wavelength"])
    d = {k: {"frequency": f, "period": 1.0 / f, "wavelength": c / f}[k]}
    if phase != 0.0:
        d["phase_shift"] = phase
    return d


def gen_gauss(rng):
    fc = rng.choice([2e14, 1.0, 3.5e14, 4.0])
    sw = fc * rng.choice([0.05, 0.1, 0.3, 1.0])
    sigma = 1.0 / (TWO_PI * sw)
    t0 = 6 * sigma
    ts = [0.0, t0, t0 - sigma, t0 + sigma, t0 + 3 * sigma, 2 * t0, -sigma, 20 * sigma] + [rng.uniform(-1, 14) * sigma for _ in range(6)]
    bad = rng.chance(0.08)
    return {"stream": "gauss", "sw": wave_desc(rng, sw, 0.4 if bad else 0.0), "cw": wave_desc(rng, fc, rng.choice([0.0, 0.0, 1.1, -2.0])),
            "phase": rng.choice([0.0, rng.uniform(-3, 3)]), "times": ts}


def impl_gauss(case):
    e = E()
    try:
        p = e["GP"](spectral_width=e["W"](**case["sw"]), center_wave=e["W"](**case["cw"]))
    except ValueError:
        return None, None
    got = lst(p.get_amplitude(arr(case["times"]), 1.0, case["phase"]))
    return got, (float(p.spectral_width.get_frequency()), float(p.center_wave.get_frequency()))


def freq_of(d):
    c = E()["c"]
    if "frequency" in d:
        return d["frequency"]
    return 1.0 / d["period"] if "period" in d else c / d["wavelength"]


def gauss_property(case, got):
    if got is None:
        return None if case["sw"].get("phase_shift", 0.0) != 0.0 else "GaussianPulseProfile raised on a valid description"
    if case["sw"].get("phase_shift", 0.0) != 0.0:
        return "GaussianPulseProfile accepted a spectral width with a phase shift"
    sw, fc = freq_of(case["sw"]), freq_of(case["cw"])
    sigma = 1.0 / (TWO_PI * sw)
    for t, a in zip(case["times"], got):
        env = math.exp(-((t - 6 * sigma) ** 2) / (2 * sigma ** 2))
        car = math.cos(TWO_PI * fc * t + case["phase"] + case["cw"].get("phase_shift", 0.0))
        if not abs(a) <= env + 1e-12:
            return f"|amplitude| {abs(a)!r} exceeds the envelope {env!r} at t={t!r}"
        if abs(a - env * car) > 1e-9:
            return f"amplitude {a!r} at t={t!r}, envelope*carrier = {env * car!r}"
    return None


# ------------------------------------------------------------------------------------------------ genv
def gen_genv(rng):
    sigma = rng.choice([1.0, 0.25, 3e-15, rng.uniform(0.1, 2), 0.0, -1.0])
    center = rng.choice([0.0, 2.0, 1e-14, rng.uniform(-1, 5)])
    s = abs(sigma) if sigma != 0 else 1.0
    return {"stream": "genv", "center": center, "sigma": sigma,
            "times": [center, center + s, center - s, center + 5 * s, center - 9 * s] + [center + rng.uniform(-6, 6) * s for _ in range(5)]}


def impl_genv(case):
    e = E()
    try:
        w = e["GW"](center_time=case["center"], sigma_time=case["sigma"])
    except ValueError:
        return None
    return lst(w.get_window(arr(case["times"])))


def genv_property(case, got):
    if got is None:
        return None if not case["sigma"] > 0 else "GaussianWindow raised for a positive sigma"
    if not case["sigma"] > 0:
        return "GaussianWindow accepted a non-positive sigma"
    for t, a in zip(case["times"], got):
        if not (0.0 <= a <= 1.0):
            return f"window value {a!r} outside [0,1] at t={t!r}"
        if t == case["center"] and a != 1.0:
            return f"window value {a!r} at its centre"
    return None


# ---------------------------------------------------------------------------------------------- custom
def gen_custom(rng, force_dtype=None):
    n = rng.randint(2, 7)
    dt = rng.choice([0.125, 0.5, 2.0, 0.25])
    start = rng.choice([0.0, 0.0, 1.5, -0.75, 4.0])
    sdt = rng.choice(["float64", "float64", "float32", "int32", "pylist-int", "bool01", "pylist-float"]) if force_dtype is None else force_dtype
    if sdt in ("int32", "pylist-int"):
        sig = [float(rng.randint(-6, 6)) for _ in range(n)]
        if len(set(sig)) == 1:
            sig[0] += 3.0                      # neighbouring samples must differ, else interpolation is invisible
    elif sdt == "bool01":
        sig = [float(rng.randint(0, 1)) for _ in range(n)]
        sig[0], sig[1] = 0.0, 1.0
    else:
        sig = [float(rng.randint(-8, 8)) / 4 for _ in range(n)]
    kind = rng.randint(0, 11)
    case = {"stream": "custom", "signal": sig, "sig_dtype": sdt, "dt": dt, "start": start,
            "interp": rng.choice(["linear", "linear", "nearest"]) if force_dtype is None else "linear",
            "outside": rng.choice([0.0, 0.0, -7.0])}
    if force_dtype is not None:
        kind = 5
    if kind == 0:
        case["signal"] = sig[:1]
    elif kind == 1:
        case["dt"] = rng.choice([0.0, -0.5])
    elif kind == 2:
        case["interp"] = "cubic"
    ts = [start + k * dt for k in range(-2, n + 2)]                                  # exactly at (and around) samples
    ts += [start + (k + fr) * dt for k in range(-1, n) for fr in (0.25, 0.5, 0.75)]  # exact dyadic fractions
    ts += [start + rng.uniform(-1.5, n + 0.5) * dt for _ in range(5)]
    while len(ts) < 40:                      # fixed array length: one XLA compilation per signal length only
        ts.append(start + rng.uniform(-1.5, n + 0.5) * dt)
    case["times"] = ts
    return case


def impl_custom(case):
    e = E()
    try:
        sdt = case.get("sig_dtype", "float64")
        if sdt in ("pylist-int", "bool01"):
            sig = [int(x) for x in case["signal"]]                 # a plain Python list of ints (0/1 for bool01)
        elif sdt == "pylist-float":
            sig = [float(x) for x in case["signal"]]
        elif sdt == "int32":
            sig = e["jnp"].asarray([int(x) for x in case["signal"]], dtype=e["jnp"].int32)
        else:
            sig = e["jnp"].asarray(case["signal"], dtype=getattr(e["jnp"], sdt))
        p = e["CT"](signal=sig, time_step_duration=case["dt"],
                    start_time=case["start"], interpolation=case["interp"], outside_value=case["outside"])
    except ValueError:
        return None
    return lst(p.get_amplitude(arr(case["times"]), 1.0, 0.0))


def custom_expected_ok(case):
    return len(case["signal"]) >= 2 and case["dt"] > 0 and case["interp"] in ("linear", "nearest")


def custom_property(case, got):
    ok = custom_expected_ok(case)
    if got is None:
        return None if not ok else "CustomTimeSignalProfile raised on a valid description"
    if not ok:
        return "CustomTimeSignalProfile accepted an invalid description"
    s, dt, st, n = case["signal"], case["dt"], case["start"], len(case["signal"])
    for t, a in zip(case["times"], got):
        x = (t - st) / dt
        k = math.floor(x)
        if k < 0 or k >= n:
            want = case["outside"]
        else:
            fr = x - k
            nxt = s[min(k + 1, n - 1)]
            want = ((1 - fr) * s[k] + fr * nxt) if case["interp"] == "linear" else (s[k] if fr < 0.5 else nxt)
        if abs(a - want) > 1e-12:
            what = "at sample" if x == k else "between samples"
            return f"custom signal {what}: amplitude {a!r} at t={t!r} (index {x!r}), expected {want!r}"
    return None


# --------------------------------------------------------------------------------------------------- K
STREAMS = {"cw": (gen_cw, impl_cw, cw_property), "genv": (gen_genv, impl_genv, genv_property),
           "custom": (gen_custom, impl_custom, custom_property)}


def model_line(case, extra=None):
    s = case["stream"]
    ts = " ".join(f2h(t) for t in case.get("times", []))
    if s == "wave":
        kw = case["kw"]
        return f"wave {f2h(E()['c'])} {opt(kw.get('period'))} {opt(kw.get('wavelength'))} {opt(kw.get('frequency'))}"
    if s == "cw":
        return f"cw {f2h(TWO_PI)} {f2h(case['ns'])} {f2h(case['self_phase'])} {f2h(case['period'])} {f2h(case['phase'])} {ts}"
    if s == "gauss":
        sw, fc = extra
        return f"gauss {f2h(TWO_PI)} {f2h(sw)} {f2h(fc)} {f2h(case['cw'].get('phase_shift', 0.0))} {f2h(case['phase'])} {ts}"
    if s == "genv":
        return f"genv {f2h(case['center'])} {f2h(case['sigma'])} {ts}"
    interp = {"linear": 0, "nearest": 1}.get(case["interp"], 2)
    return (f"custom {f2h(case['start'])} {f2h(case['dt'])} {f2h(case['outside'])} {interp} {len(case['signal'])} "
            + " ".join(f2h(x) for x in case["signal"]) + " " + ts)


def run(ctx):
    e = E()
    rng = ctx.rng
    lines, post = [], []
    for i in range(ctx.scale(150, 1500)):
        kw = gen_wave(rng)
        case = {"stream": "wave", "kw": kw}
        got = impl_wave(kw)
        ctx.case(sample=case if i == 1 else None, nontrivial=None if list(kw) == ["period"] else ("wave", i), stream="wave",
                 given="+".join(sorted(kw)) or "none")
        ctx.impl_property_evals += 1
        d = wave_property(kw, got)
        if d:
            ctx.violation(case, d)
        lines.append(model_line(case))
        post.append((case, got, 0.0))
    for i in range(ctx.scale(60, 600)):
        case = gen_gauss(rng)
        got, fr = impl_gauss(case)
        ctx.case(sample=None, nontrivial=("gauss", i), stream="gauss", sw_given=sorted(case["sw"])[0], cw_given=sorted(case["cw"])[0],
                 outcome="error" if got is None else "ok")
        ctx.impl_property_evals += 1
        d = gauss_property(case, got)
        if d:
            ctx.violation(case, d)
        if got is not None:
            lines.append(model_line(case, fr))
            post.append((case, got, 1e-9))
    forced = ["int32", "pylist-int", "bool01", "float32", "pylist-float"] * ctx.scale(4, 20)
    for name, n in (("cw", ctx.scale(60, 600)), ("genv", ctx.scale(40, 400)), ("custom", ctx.scale(120, 1200) + len(forced))):
        gen, impl, prop = STREAMS[name]
        for i in range(n):
            case = gen(rng) if not (name == "custom" and i < len(forced)) else gen_custom(rng, forced[i])
            got = impl(case)
            ctx.case(sample=case if i == 0 and name == "custom" else None, nontrivial=(name, i), stream=name,
                     outcome="error" if got is None else "ok",
                     **({"interp": case["interp"], "sig_dtype": case["sig_dtype"]} if name == "custom" else {}), **({"n_startup": case["ns"]} if name == "cw" else {}))
            ctx.impl_property_evals += 1
            d = prop(case, got)
            if d:
                ctx.violation(case, d)
            if name == "genv" and got is None:
                continue                      # the model has no constructor check for the window (sigma > 0 is the oracle's)
            lines.append(model_line(case))
            post.append((case, got, 1e-12 if name == "custom" else 1e-9))
    # excluded point: num_startup_periods = 0
    p0 = e["CW"](phase_shift=0.0, num_startup_periods=0)
    a0 = lst(p0.get_amplitude(arr([-1.0, 0.0, 0.5, 2.0]), 1.0, 0.0))
    ctx.extra["excluded_point_num_startup_periods_0"] = {"times": [-1.0, 0.0, 0.5, 2.0], "amplitudes": [repr(x) for x in a0],
                                                         "note": "ramp duration 0: t/0 -> NaN at t=0, step function elsewhere; outside the property's domain"}
    ctx.case(nontrivial=("cw", "nstartup0"), stream="cw-excluded", n_startup=0)

    reps = ctx.driver.ask_many(lines)
    for (case, got, tol), rep in zip(post, reps):
        s = case["stream"]
        if got is None:
            ctx.expect_equal(s, case, "error", rep)
        elif rep in ("error", "bad-op"):
            ctx.mismatch(s, case, {"impl": "ok", "model": rep})
        elif tol == 0.0:
            ctx.expect_equal(s, case, [f2h(x) for x in got], rep.split())
        else:
            ctx.expect_close(s, case, got, h2fs(rep), tol=tol)


# --------------------------------------------------------------------------------------------------- S
def replay(ctx, inp):
    s = inp["stream"]
    if s == "wave":
        return wave_property(inp["kw"], impl_wave(inp["kw"]))
    if s == "gauss":
        return gauss_property(inp, impl_gauss(inp)[0])
    gen, impl, prop = STREAMS[s]
    return prop(inp, impl(inp))


def search(ctx, hints):
    for h in hints:
        if isinstance(h, dict) and "stream" in h:
            d = replay(ctx, h)
            if d:
                ctx.violation(h, d)
                return
    rng = ctx.rng.fork()
    gens = [lambda: {"stream": "wave", "kw": gen_wave(rng)}, lambda: gen_cw(rng), lambda: gen_gauss(rng), lambda: gen_genv(rng),
            lambda: gen_custom(rng)]
    for i in range(2500):
        case = gens[i % 5]()
        ctx.impl_property_evals += 1
        d = replay(ctx, case)
        if d:
            ctx.violation(case, d)
            return
