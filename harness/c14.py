"""C14 — OnOffSwitch schedules, source gating and detector index maps vs lean/FdtdxModel/C14.lean"""
import math

import numpy as np

from .common import f2h, h2f

RULE = ("K: (a) OnOffSwitch.calculate_on_list / calculate_time_step_to_on_arr_idx / is_default_always_on for EVERY step "
        "count T<=Tmax on a structured grid of switches: all 2^7 presence patterns of the six time parameters and the "
        "period (two value assignments each, intervals 1..3), every VALID pattern with values drawn from a set that "
        "straddles step boundaries in binary64 (k*dt, products such as 1.5*0.2, half steps), always-off (also with "
        "an invalid specification), fixed step lists (unsorted, duplicates, negative = Python wrap, out of range), intervals "
        "0 / negative / > T; compared EXACTLY (on bits, index map, record count, default flag, error kind) with the "
        "model, which performs the same binary64 multiplications and comparisons. (b) real runs on a 4^3 periodic "
        "scene with random switches on an electric and a magnetic PointDipoleSource and on FieldDetectors: "
        "update_E/update_H/update_E_reverse/update_H_reverse at every step against the same scene placed without "
        "sources (inactive step => bit-identical fields), run_fdtd detector state = the always-on detector's records "
        "at the distinct active steps in chronological order (exact; every quick run has detectors with the unsorted list "
        "[5,1,3] and the repeating list [2,2,4,9,4]), zero fields before the first active source step, "
        "Source.adjust_time_step_by_on_off vs the model; MULTI-SOURCE increments: 2-5 dipoles (electric/magnetic, always-on default "
        "switch, windows, interval, fixed steps, always-off) in a given and the reversed list order (search: every order): "
        "the per-step increment of the multi-source scene = sum of the single-source increments of the sources that are "
        "active at that step (each source observed alone via an ObjectContainer holding only it), zero from inactive ones; every detector kind that stores per-step records (EnergyDetector "
        "full / reduce_volume / as_slices by mean and by position, PoyntingFluxDetector reduce / full / keep_all, "
        "ClosedSurfacePoyntingFluxDetector, FieldDetector reduce / exact) with a schedule whose slot differs from the time step, "
        "next to an always-on twin: record j == twin's record at the j-th active step for every state key (all kinds in the "
        "seeded scene of every run). non-trivial = a schedule with at least one active and one "
        "inactive step, or an error kind. The documented window rule is evaluated independently in Python "
        "(oracle_on_list) on every case.")

NONE = "-"
FIELDS = ("start_time", "start_after_periods", "end_time", "end_after_periods", "on_for_time", "on_for_periods", "period")

_mods = None


def M():
    global _mods
    if _mods is None:
        import jax
        jax.config.update("jax_enable_x64", True)
        import jax.numpy as jnp
        import fdtdx
        from fdtdx.core.switch import OnOffSwitch
        from fdtdx.fdtd import update as upd
        _mods = dict(jax=jax, jnp=jnp, fdtdx=fdtdx, OnOffSwitch=OnOffSwitch, upd=upd)
    return _mods


# ------------------------------------------------------------------------------------ case encoding
def mk_case(T, dt, st=None, sap=None, et=None, eap=None, oft=None, ofp=None, per=None, interval=1, off=False,
            fixed=None):
    return {"T": T, "dt": dt, "start_time": st, "start_after_periods": sap, "end_time": et, "end_after_periods": eap,
            "on_for_time": oft, "on_for_periods": ofp, "period": per, "interval": interval, "is_always_off": off,
            "fixed_on_time_steps": fixed}


def line_of(c):
    fl = [NONE if c[k] is None else f2h(c[k]) for k in FIELDS]
    fx = c["fixed_on_time_steps"]
    return (f"sw {c['T']} {f2h(c['dt'])} " + " ".join(fl) + f" {c['interval']} {1 if c['is_always_off'] else 0} "
            + (f"-1" if fx is None else f"{len(fx)}" + "".join(f" {i}" for i in fx)))


def switch_of(c):
    kw = {k: c[k] for k in FIELDS if c[k] is not None}
    if c["fixed_on_time_steps"] is not None:
        kw["fixed_on_time_steps"] = list(c["fixed_on_time_steps"])
    if c["is_always_off"]:
        kw["is_always_off"] = True
    if c["interval"] != 1:
        kw["interval"] = c["interval"]
    return M()["OnOffSwitch"](**kw)


def err_kind(e):
    """small enum of the implementation's exceptions; messages are only used to refine the generic kind"""
    if isinstance(e, ZeroDivisionError):
        return "zero-interval"
    if isinstance(e, IndexError):
        return "index-error"
    msg = str(e).lower()
    if "period" in msg:
        return "need-period"
    if "start" in msg:
        return "bad-start"
    if "end" in msg:
        return "bad-end"
    if "never" in msg:
        return "never"
    return "spec-error"


SPEC_KINDS = {"need-period", "bad-start", "bad-end", "never", "spec-error"}


def impl_reply(c):
    sw = switch_of(c)
    try:
        on = sw.calculate_on_list(num_total_time_steps=c["T"], time_step_duration=c["dt"])
        idx = sw.calculate_time_step_to_on_arr_idx(num_total_time_steps=c["T"], time_step_duration=c["dt"])
    except Exception as e:  # noqa: BLE001 — every raise is an outcome
        return "error " + err_kind(e)
    return (f"ok {' '.join('1' if b else '0' for b in on)} | {' '.join(str(int(i)) for i in idx)} | "
            f"{sum(bool(b) for b in on)} | {1 if sw.is_default_always_on else 0}")


def same_reply(impl, model):
    if impl == model:
        return True
    # an exception whose message no longer names its kind is still the same outcome class
    if impl == "error spec-error" and model.startswith("error ") and model[6:] in SPEC_KINDS:
        return True
    return False


# ----------------------------------------------------------------- independent oracle of the documented rule
def oracle_on_list(c):
    """The documented rule, written from the field documentation (not from the code):
    fixed list → exactly those steps; always off → nothing; otherwise active iff start <= t*dt <= end and
    interval | t, where start is the start time (absolute, or in periods), else end - duration when a duration and an
    end are given, else 0; end is the end time (absolute or in periods), else start + duration, else unbounded.
    Over- or under-determined specifications are errors.  Returns a list of bools or the string 'error'."""
    T, dt = c["T"], c["dt"]
    if c["fixed_on_time_steps"] is not None:
        out = [False] * T
        for i in c["fixed_on_time_steps"]:
            if not -T <= i < T:
                return "error"
            out[i % T] = True
        return out
    if c["is_always_off"] or T == 0:
        return [False] * T
    per = c["period"]
    if per is None and any(c[k] is not None for k in ("start_after_periods", "end_after_periods", "on_for_periods")):
        return "error"
    starts = [c["start_time"]] if c["start_time"] is not None else []
    if c["start_after_periods"] is not None:
        starts.append(c["start_after_periods"] * per)
    ends = [c["end_time"]] if c["end_time"] is not None else []
    if c["end_after_periods"] is not None:
        ends.append(c["end_after_periods"] * per)
    durs = [c["on_for_time"]] if c["on_for_time"] is not None else []
    if c["on_for_periods"] is not None:
        durs.append(c["on_for_periods"] * per)
    if len(starts) > 1 or len(ends) > 1 or len(durs) > 1 or (durs and starts and ends):
        return "error"
    if durs and ends:
        end = ends[0]
        start = end - durs[0]
    else:
        start = starts[0] if starts else 0.0
        end = start + durs[0] if durs else (ends[0] if ends else math.inf)
    out = []
    for t in range(T):
        on = start <= t * dt <= end
        if on:
            if c["interval"] == 0:
                return "error"
            on = t % c["interval"] == 0
        out.append(on)
    return out


def property_fails_switch(c, impl=None):
    """the schedule part of the property on the implementation"""
    impl = impl_reply(c) if impl is None else impl
    exp = oracle_on_list(c)
    if exp == "error":
        return None if impl.startswith("error") else f"invalid schedule accepted: {impl[:80]}"
    if impl.startswith("error"):
        return f"valid schedule rejected ({impl}); the window rule gives {bits(exp)}"
    on_s, idx_s, n_s, _ = [p.strip() for p in impl[3:].split("|")]
    if on_s != bits(exp):
        return f"on-list {on_s} but the window rule gives {bits(exp)}"
    rank, exp_idx = 0, []
    for b in exp:
        exp_idx.append(rank if b else -1)
        rank += 1 if b else 0
    if idx_s != " ".join(map(str, exp_idx)) or int(n_s) != rank:
        return f"index map {idx_s} / count {n_s}, expected rank map {exp_idx} / {rank}"
    return None


def bits(l):
    return " ".join("1" if b else "0" for b in l)


# ------------------------------------------------------------------------------------- generators
def grid_cases(ctx):
    Tmax = ctx.scale(12, 24)
    dt = 0.1
    out = []
    Ts = list(range(0, Tmax + 1))
    # (1) all presence patterns, two assignments, intervals 1..3
    vals = [dict(st=0.2, sap=1.5, et=0.7, eap=4.0, oft=0.3, ofp=2.0, per=0.2),
            dict(st=0.30000000000000004, sap=1.0, et=0.6000000000000001, eap=2.5, oft=0.4, ofp=1.5, per=0.2)]
    names = ("st", "sap", "et", "eap", "oft", "ofp", "per")
    for mask in range(128):
        for vi, v in enumerate(vals):
            kw = {n: v[n] for i, n in enumerate(names) if mask >> i & 1}
            for iv in (1, 2, 3):
                for T in (Ts if iv == 1 and vi == 0 else (0, 1, Tmax // 2, Tmax)):
                    out.append(("presence", mk_case(T, dt, interval=iv, **kw)))
    # (2) valid patterns × boundary-straddling values (binary64: 3*0.1 != 0.3, 1.5*0.2 == 3*0.1, 7*0.1 != 0.7)
    tv = [0.0, 0.2, 0.3, 0.30000000000000004, 0.25, 0.7, 0.7000000000000001, 1.15, 5.0, -0.1]
    pv = [0.0, 1.0, 1.5, 3.5, 20.0]
    dv = [0.0, 0.1, 0.30000000000000004, 0.45]
    per = 0.2
    if not ctx.thorough:
        tv, pv, dv = tv[:8], pv[:4], dv[1:]
    for T in (Tmax, 5):
        for a in tv:
            out.append(("valid", mk_case(T, dt, st=a)))
            out.append(("valid", mk_case(T, dt, et=a)))
            for b in tv:
                out.append(("valid", mk_case(T, dt, st=a, et=b)))
            for d in dv:
                out.append(("valid", mk_case(T, dt, st=a, oft=d)))
                out.append(("valid", mk_case(T, dt, et=a, oft=d)))
                out.append(("valid", mk_case(T, dt, st=a, ofp=d * 5, per=per)))
                out.append(("valid", mk_case(T, dt, et=a, ofp=d * 5, per=per)))
            for p in pv:
                out.append(("valid", mk_case(T, dt, st=a, eap=p, per=per)))
                out.append(("valid", mk_case(T, dt, sap=p, et=a, per=per)))
        for p in pv:
            out.append(("valid", mk_case(T, dt, sap=p, per=per)))
            out.append(("valid", mk_case(T, dt, eap=p, per=per)))
            for q in pv:
                out.append(("valid", mk_case(T, dt, sap=p, eap=q, per=per)))
            for d in dv:
                out.append(("valid", mk_case(T, dt, sap=p, oft=d, per=per)))
                out.append(("valid", mk_case(T, dt, eap=p, oft=d, per=per)))
                out.append(("valid", mk_case(T, dt, sap=p, ofp=d * 5, per=per)))
                out.append(("valid", mk_case(T, dt, eap=p, ofp=d * 5, per=per)))
        for d in dv:
            out.append(("valid", mk_case(T, dt, oft=d)))
            out.append(("valid", mk_case(T, dt, ofp=d * 5, per=per)))
    # (3) other step durations (not exactly representable / tiny physical)
    for dt2 in (9.532874347655028e-17, 1.0 / 3.0):
        for T in (Tmax, 7):
            for k in (0, 1, 2.5, 3, 6):
                out.append(("dt", mk_case(T, dt2, st=k * dt2)))
                out.append(("dt", mk_case(T, dt2, et=k * dt2, interval=2)))
                out.append(("dt", mk_case(T, dt2, st=dt2, oft=k * dt2)))
                out.append(("dt", mk_case(T, dt2, sap=k, ofp=1.0, per=2 * dt2)))
    # (4) intervals: 0 (ZeroDivisionError only when a step is active), negative, larger than T
    for T in (0, 1, 4, Tmax):
        for iv in (0, -1, -2, 4, Tmax + 3):
            out.append(("interval", mk_case(T, dt, interval=iv)))
            out.append(("interval", mk_case(T, dt, st=0.2, et=0.6, interval=iv)))
            out.append(("interval", mk_case(T, dt, st=50.0, interval=iv)))          # never active: no division
            out.append(("interval", mk_case(T, dt, off=True, interval=iv)))
    # (5) always off, also with invalid specifications (no validation happens)
    for T in (0, 3, Tmax):
        out.append(("off", mk_case(T, dt, off=True)))
        out.append(("off", mk_case(T, dt, off=True, st=0.1, sap=1.0)))
        out.append(("off", mk_case(T, dt, off=True, ofp=1.0)))
        out.append(("off", mk_case(T, dt, off=True, et=0.5, eap=1.0, per=0.2)))
    # (6) fixed lists (take precedence over everything, Python list indexing)
    for T in (0, 1, 5, Tmax):
        lists = [[], [0], [T - 1], [T], [-1], [-T], [-T - 1], [0, 0, 2], [3, 1, 2], [1, -1, 1], list(range(T)),
                 [2, T + 5], [-2, 1], [5, 1, 3], [2, 2, 4], [4, 2, 2, 0], list(range(T))[::-1], [3, 3, 3], [1, 4, 1, 4, 0]]
        for fx in lists:
            out.append(("fixed", mk_case(T, dt, fixed=fx)))
        out.append(("fixed", mk_case(T, dt, fixed=[0], off=True)))
        out.append(("fixed", mk_case(T, dt, fixed=[0, 1], interval=2)))
        out.append(("fixed", mk_case(T, dt, fixed=[0], st=0.1, sap=1.0)))
    # (7) random
    for _ in range(ctx.scale(300, 3000)):
        out.append(("random", random_switch_case(ctx.rng, ctx.rng.randint(0, Tmax), ctx.rng.choice([0.1, 0.25, 1e-16]))))
    return out


def random_switch_case(rng, T, dt, per=None, valid_only=False):
    """structured random schedule in units of dt"""
    def tm():
        return rng.choice([rng.randint(0, max(T, 1)) * dt, (rng.randint(0, max(T, 1)) + 0.5) * dt,
                           rng.uniform(-1, T + 1) * dt])
    per = per if per is not None else rng.choice([2 * dt, 3.5 * dt])
    kind = rng.randint(0, 13)
    iv = rng.choice([1, 1, 2, 3])
    if kind == 0:
        if not T:
            return mk_case(T, dt, fixed=[])
        fx = [rng.randint(0, T - 1) for _ in range(rng.randint(0, T))]          # written order, repeats allowed
        return mk_case(T, dt, fixed=sorted(set(fx)) if rng.chance(0.3) else fx)
    if kind == 1:
        return mk_case(T, dt, off=True)
    if kind == 2:
        return mk_case(T, dt, interval=iv + 1)
    if kind == 3:
        return mk_case(T, dt, st=tm(), interval=iv)
    if kind == 4:
        return mk_case(T, dt, et=tm(), interval=iv)
    if kind == 5:
        a = tm()
        return mk_case(T, dt, st=a, et=a + abs(tm()), interval=iv)
    if kind == 6:
        return mk_case(T, dt, st=tm(), oft=abs(tm()), interval=iv)
    if kind == 7:
        return mk_case(T, dt, et=tm(), oft=abs(tm()) / 2, interval=iv)
    if kind == 8:
        return mk_case(T, dt, sap=tm() / per, per=per, interval=iv)
    if kind == 9:
        return mk_case(T, dt, sap=abs(tm()) / per / 2, eap=abs(tm()) / per, per=per, interval=iv)
    if kind == 10:
        return mk_case(T, dt, sap=abs(tm()) / per / 2, ofp=abs(tm()) / per, per=per, interval=iv)
    if kind == 11:
        return mk_case(T, dt, eap=abs(tm()) / per, ofp=abs(tm()) / per / 2, per=per, interval=iv)
    if kind == 12:
        return mk_case(T, dt, oft=abs(tm()), interval=iv)
    if valid_only:
        return mk_case(T, dt, st=tm(), eap=abs(tm()) / per, per=per, interval=iv)
    # arbitrary (mostly invalid) combination
    kw = {}
    for n in ("st", "sap", "et", "eap", "oft", "ofp", "per"):
        if rng.chance(0.35):
            kw[n] = tm() if n in ("st", "et", "oft") else (per if n == "per" else abs(tm()) / per)
    return mk_case(T, dt, interval=iv, **kw)


def nontrivial_key(c, reply):
    if reply.startswith("error"):
        return ("err", reply, tuple(k for k in FIELDS if c[k] is not None), c["interval"] == 0)
    on = reply[3:].split("|")[0].split()
    if "1" in on and "0" in on:
        return ("mixed", tuple(k for k in FIELDS if c[k] is not None), c["interval"], c["fixed_on_time_steps"] is not None,
                " ".join(on))
    return None


# --------------------------------------------------------------------------------------- scenes (b)
RES = 50e-9


FULL = [(0, 4), (0, 4), (0, 4)]
# every detector kind that stores one record per active step: (class name, options, region)
EXTRA_KINDS = {
    "energy_slices_mean": ("EnergyDetector", dict(as_slices=True), FULL),
    "energy_slices_pos": ("EnergyDetector", dict(as_slices=True, x_slice=1.3 * RES, y_slice=-0.6 * RES, z_slice=0.2 * RES), FULL),
    "energy_reduce": ("EnergyDetector", dict(reduce_volume=True), FULL),
    "energy_full": ("EnergyDetector", dict(), [(1, 4), (0, 2), (0, 4)]),
    "poynting_reduce": ("PoyntingFluxDetector", dict(direction="+", reduce_volume=True), [(0, 4), (0, 4), (1, 2)]),
    "poynting_full": ("PoyntingFluxDetector", dict(direction="-", reduce_volume=False), [(0, 4), (2, 3), (0, 4)]),
    "poynting_keep_all": ("PoyntingFluxDetector", dict(direction="+", reduce_volume=True, keep_all_components=True),
                          [(3, 4), (0, 4), (0, 4)]),
    "closed_poynting": ("ClosedSurfacePoyntingFluxDetector", dict(orientation="inward"), [(0, 3), (1, 4), (1, 3)]),
    "field_reduce": ("FieldDetector", dict(reduce_volume=True, components=("Ex", "Hy")), FULL),
    "field_exact": ("FieldDetector", dict(exact_interpolation=True), [(1, 3), (1, 3), (0, 4)]),
}


def region_constraints(obj, region):
    return [obj.set_grid_coordinates(axes=(0, 1, 2), sides=("-", "-", "-"), coordinates=tuple(r[0] for r in region)),
            obj.set_grid_coordinates(axes=(0, 1, 2), sides=("+", "+", "+"), coordinates=tuple(r[1] for r in region))]


def source_specs(sc):
    """the scene's sources in list order: src_e / src_h (centre cell) plus sc["more"], permuted by sc["order"]"""
    specs = [{"name": "src_e", "type": "electric", "pol": 2, "pos": None, "switch": sc["src_e"]},
             {"name": "src_h", "type": "magnetic", "pol": 0, "pos": None, "switch": sc["src_h"]}]
    specs += [dict(x) for x in sc.get("more", [])]
    if sc.get("order"):
        by = {x["name"]: x for x in specs}
        specs = [by[n] for n in sc["order"]]
    return specs


def build_scene(T, sw_e, sw_h, det_switches, with_sources=True, n=4, extras=(), sources=None):
    """4^3 periodic box, electric + magnetic dipole (Gaussian pulse: non-zero at every time), FieldDetectors"""
    m = M()
    fdtdx, jnp, jax = m["fdtdx"], m["jnp"], m["jax"]
    grid = fdtdx.UniformGrid(spacing=RES)
    dt = fdtdx.SimulationConfig(time=1e-13, grid=grid, dtype=jnp.float64, backend="cpu").time_step_duration
    cfg = fdtdx.SimulationConfig(time=(T + 0.01) * dt, grid=grid, dtype=jnp.float64, backend="cpu")
    vol = fdtdx.SimulationVolume(partial_real_shape=(n * RES, n * RES, n * RES))
    objs, cons = [vol], []
    bd, bc = fdtdx.boundary_objects_from_config(fdtdx.BoundaryConfig.from_uniform_bound(boundary_type="periodic"), vol)
    objs += list(bd.values())
    cons += bc
    wc = fdtdx.WaveCharacter(wavelength=8 * RES)
    prof = fdtdx.GaussianPulseProfile(spectral_width=fdtdx.WaveCharacter(wavelength=16 * RES), center_wave=wc)
    if sources is not None:
        for sp in sources:
            sd = fdtdx.PointDipoleSource(name=sp["name"], partial_grid_shape=(1, 1, 1), wave_character=wc, polarization=sp["pol"],
                                         source_type=sp["type"], temporal_profile=prof, switch=switch_of(sp["switch"]),
                                         static_amplitude_factor=sp.get("amp", 1.0))
            objs.append(sd)
            cons += [sd.place_at_center(vol)] if sp["pos"] is None else region_constraints(sd, [(x, x + 1) for x in sp["pos"]])
    elif with_sources:
        se = fdtdx.PointDipoleSource(name="src_e", partial_grid_shape=(1, 1, 1), wave_character=wc, polarization=2,
                                     temporal_profile=prof, switch=sw_e)
        sh = fdtdx.PointDipoleSource(name="src_h", partial_grid_shape=(1, 1, 1), wave_character=wc, polarization=0,
                                     source_type="magnetic", temporal_profile=prof, switch=sw_h)
        objs += [se, sh]
        cons += [se.place_at_center(vol), sh.place_at_center(vol)]
    dall = fdtdx.FieldDetector(name="all", dtype=jnp.float64, exact_interpolation=False, plot=False)
    objs.append(dall)
    cons += dall.same_position_and_size(vol)
    for i, (sw, red) in enumerate(det_switches):
        d = fdtdx.FieldDetector(name=f"sw{i}", dtype=jnp.float64, exact_interpolation=False, plot=False, switch=sw,
                                reduce_volume=red, components=("Ez", "Hx") if red else ("Ex", "Ey", "Ez", "Hx", "Hy", "Hz"))
        objs.append(d)
        cons += d.same_position_and_size(vol)
    for i, (kind, sw) in enumerate(extras):
        cls, opts, region = EXTRA_KINDS[kind]
        opts = dict(dict(dtype=jnp.float64, exact_interpolation=False, plot=False), **opts)
        for name, swx in ((f"x{i}", sw), (f"y{i}", None)):      # scheduled detector and its always-on twin
            d = getattr(fdtdx, cls)(name=name, **opts) if swx is None else getattr(fdtdx, cls)(name=name, switch=swx, **opts)
            objs.append(d)
            cons += region_constraints(d, region)
    key = jax.random.PRNGKey(0)
    o, a, p, c, _ = fdtdx.place_objects(object_list=objs, config=cfg, constraints=cons, key=key)
    a, o, _ = fdtdx.apply_params(a, o, p, key)
    return o, a, c, 1.0 / wc.get_frequency()


def scene_dt():
    m = M()
    return float(m["fdtdx"].SimulationConfig(time=1e-13, grid=m["fdtdx"].UniformGrid(spacing=RES), dtype=m["jnp"].float64,
                                             backend="cpu").time_step_duration)


def run_scene_case(ctx, sc, check_model=True):
    """sc: {"T":…, "src_e": case, "src_h": case, "dets": [[case, reduce], …], "seed": int}
    returns a violation detail string or None; K comparisons go through ctx when check_model"""
    m = M()
    jax, jnp, fdtdx, upd = m["jax"], m["jnp"], m["fdtdx"], m["upd"]
    T = sc["T"]
    extras = sc.get("extras", [])
    specs = source_specs(sc)
    o, a, cfg, _ = build_scene(T, None, None, [(switch_of(c), r) for c, r in sc["dets"]],
                               extras=[(k, switch_of(c)) for k, c in extras], sources=specs)
    assert cfg.time_steps_total == T, (cfg.time_steps_total, T)
    dt = float(cfg.time_step_duration)
    detail = None
    exp = {sp["name"]: oracle_on_list(dict(sp["switch"], T=T, dt=dt)) for sp in specs}
    stype = {sp["name"]: sp["type"] for sp in specs}
    # ---- per-step injected increments: multi-source scene (every requested list order), each source alone, no source
    from fdtdx.fdtd.container import ObjectContainer
    src_names = [sp["name"] for sp in specs]
    others = [x for x in o.object_list if x.name not in src_names]

    def container(names):
        lst = others + [o[nm] for nm in names]
        return ObjectContainer(object_list=lst, volume_idx=[x.name for x in lst].index(o.volume.name))

    rs = np.random.RandomState(sc["seed"])
    shape = a.fields.E.shape
    E = jnp.asarray(rs.uniform(-1, 1, shape))
    H = jnp.asarray(rs.uniform(-1, 1, shape))

    def stepper(fn, objs, rev, which):
        extra = () if rev else (True,)
        f = jax.jit(lambda t, E, H: getattr(fn(t, a.aset("fields->E", E).aset("fields->H", H), objs, cfg, *extra).fields, which))
        return lambda t: np.asarray(f(jnp.asarray(t, dtype=jnp.int32), E, H))

    fns = {"update_E": (upd.update_E, "E", "electric"), "update_H": (upd.update_H, "H", "magnetic"),
           "update_E_reverse": (upd.update_E_reverse, "E", "electric"), "update_H_reverse": (upd.update_H_reverse, "H", "magnetic")}
    if sc.get("only"):     # cheaper scenes exercise one direction of the time loop
        fns = {k: v for k, v in fns.items() if k.endswith("reverse") == (sc["only"] == "reverse")}
    orders = [src_names] + [list(x) for x in sc.get("orders", []) if list(x) != src_names]
    differs = {}
    for name, (fn, which, typ) in fns.items():
        rev = name.endswith("reverse")
        base = stepper(fn, container([]), rev, which)
        base_t = [base(t) for t in range(T)]
        inc = {}
        for nm in src_names:
            if stype[nm] != typ:
                continue            # a dipole of the other kind never touches this field (covered by the multi-source sum)
            single = stepper(fn, container([nm]), rev, which)
            inc[nm] = [single(t) - base_t[t] for t in range(T)]
            differs[(name, nm)] = [bool(np.any(x != 0)) for x in inc[nm]]
            ctx.impl_property_evals += T
            for t in range(T):
                if differs[(name, nm)][t] and not exp[nm][t] and detail is None:
                    detail = (f"{name} at inactive step {t} of source {nm} (alone in the scene) changed the field "
                              f"(schedule {bits(exp[nm])}, changed at {bits(differs[(name, nm)])})")
        for order in orders:
            multi = stepper(fn, container(order), rev, which)
            for t in range(T):
                got = multi(t) - base_t[t]
                want = sum((inc[nm][t] for nm in inc if exp[nm][t]), np.zeros_like(got))
                ctx.impl_property_evals += 1
                amp = max(1.0, float(np.max(np.abs(want))), float(np.max(np.abs(got))))
                if detail is None and not np.all(np.abs(got - want) <= 1e-12 * amp):
                    on_now = [nm for nm in order if exp[nm][t]]
                    lost = [nm for nm in inc if exp[nm][t] and np.any(inc[nm][t] != 0)
                            and np.all(np.abs(got[np.nonzero(inc[nm][t])] ) <= 1e-12 * amp)]
                    detail = (f"{name} at step {t} with sources listed as {order} (active now: {on_now}): the injected increment "
                              f"is not the sum of the single-source increments of the active sources (max deviation "
                              f"{float(np.max(np.abs(got - want))):.3e}"
                              + (f"; the injection of {lost} is missing" if lost else "") + ")")
    extra_checks = []
    # ---- whole run: detector records
    try:
        _, arr = fdtdx.run_fdtd(arrays=a, objects=o, config=cfg, key=jax.random.PRNGKey(1), show_progress=False)
    except Exception as e:  # noqa: BLE001 — every schedule of the scene is valid: the run has to go through
        ctx.impl_property_evals += 1
        return (f"run_fdtd raised {type(e).__name__}: {str(e)[:160]} although every schedule of the scene is valid "
                f"(detector schedules: {[bits(oracle_on_list(dict(c, T=T, dt=dt))) for c, _ in sc['dets']]})")
    st = {k: np.asarray(v["fields"]) for k, v in arr.detector_states.items() if "fields" in v}
    full = st["all"]
    # ---- every per-step detector kind next to its always-on twin: record j == twin's record at the j-th active step
    for i, (kind, c) in enumerate(extras):
        e = oracle_on_list(dict(c, T=T, dt=dt))
        steps = [t for t in range(T) if e[t]]
        sx, sy = arr.detector_states[f"x{i}"], arr.detector_states[f"y{i}"]
        ctx.impl_property_evals += 1
        for key in sorted(sy):
            got, twin = np.asarray(sx[key]), np.asarray(sy[key])
            ref = twin[steps] if steps else twin[:0]
            if detail is None and twin.shape[0] != T:
                detail = f"always-on {kind} twin holds {twin.shape[0]} records for {T} steps"
            if detail is None and (got.shape != ref.shape or not np.array_equal(got, ref)):
                slot = "-" if got.shape != ref.shape else int(np.argmax(np.any((got != ref).reshape(got.shape[0], -1), axis=1)))
                detail = (f"{kind} detector x{i}, key '{key}' (schedule {bits(e)}): holds {got.shape[0]} records; record j must "
                          f"equal the always-on twin's record at the j-th active step {steps}; first differing slot {slot}")
        if check_model:
            d_obj = o[f"x{i}"]
            extra_checks.append((i, kind, dict(c, T=T, dt=dt), d_obj))
    first_on = min([t for nm in src_names for t in range(T) if exp[nm][t]] + [T])
    ctx.impl_property_evals += 1
    if detail is None and np.any(full[:first_on] != 0):
        detail = f"fields are non-zero before the first active source step {first_on}"
    wts = np.asarray(o["sw0"]._cached_cell_volume_weights) if sc["dets"] else None
    det_checks = []
    for i, (c, red) in enumerate(sc["dets"]):
        c = dict(c, T=T, dt=dt)
        e = oracle_on_list(c)
        got = st[f"sw{i}"]
        steps = [t for t in range(T) if e[t]]
        ref = full[steps] if steps else full[:0]
        if red:
            ref = (ref[:, [2, 3]] * wts[None, None]).sum(axis=(2, 3, 4)) / wts.sum()
        ctx.impl_property_evals += 1
        # reduced records are signed volume means (cancellation): compare against the size of the averaged fields
        amp = float(np.max(np.abs(full))) if full.size else 0.0
        ok = got.shape == ref.shape and (np.array_equal(got, ref) if not red
                                         else bool(np.all(np.abs(got - ref) <= 1e-12 * amp)))
        if not ok and detail is None:
            detail = (f"detector sw{i} (schedule {bits(e)}, reduce={red}) holds {got.shape[0]} records; expected the "
                      f"{len(steps)} records of steps {steps} in order"
                      + ("" if got.shape != ref.shape else f"; first differing slot {int(np.argmax(np.any((got != ref).reshape(got.shape[0], -1), axis=1)))}"))
        if check_model:
            det_checks.append((i, c, red, got))
    if check_model:
        names = sorted(differs)          # (function, source) pairs observed alone
        swc = {sp["name"]: dict(sp["switch"], T=T, dt=dt) for sp in specs}
        lines = [line_of(c) for (_, c, _, _) in det_checks] + [line_of(swc[nm]) for (_, nm) in names]
        reps = ctx.driver.ask_many(lines)
        for (i, c, red, got), rep in zip(det_checks, reps):
            if rep.startswith("ok"):
                parts = [x.strip() for x in rep[3:].split("|")]
                idx = [int(x) for x in parts[1].split()]
                n = int(parts[2])
                model_state = np.zeros((n,) + got.shape[1:])
                for t in range(T):
                    if idx[t] >= 0:
                        model_state[idx[t]] = full[t] if not red else (full[t][[2, 3]] * wts[None]).sum(axis=(1, 2, 3)) / wts.sum()
                ctx.expect_close("detector-state", {"scene": sc, "det": i}, got, model_state, tol=1e-12)
                d_obj = o[f"sw{i}"]
                ctx.expect_equal("detector-on-arrays", {"scene": sc, "det": i},
                                 (bits(np.asarray(d_obj._is_on_at_time_step_arr).tolist()),
                                  " ".join(str(int(x)) for x in np.asarray(d_obj._time_step_to_arr_idx)),
                                  int(d_obj.num_time_steps_recorded)),
                                 (parts[0], parts[1], n))
            else:
                ctx.mismatch("detector-state", {"scene": sc, "det": i}, {"model": rep, "impl": "placed and ran"})
        for (i, kind, c, d_obj), rep in zip(extra_checks, ctx.driver.ask_many([line_of(c) for (_, _, c, _) in extra_checks]) if extra_checks else []):
            if not rep.startswith("ok"):
                ctx.mismatch("extra-on-arrays", {"scene": sc, "extra": i}, {"model": rep})
                continue
            parts = [x.strip() for x in rep[3:].split("|")]
            ctx.expect_equal("extra-on-arrays", {"scene": sc, "extra": i, "kind": kind},
                             (bits(np.asarray(d_obj._is_on_at_time_step_arr).tolist()),
                              " ".join(str(int(x)) for x in np.asarray(d_obj._time_step_to_arr_idx)),
                              int(d_obj.num_time_steps_recorded)),
                             (parts[0], parts[1], int(parts[2])))
        adj_req = []
        for name, rep in zip(names, reps[len(det_checks):]):
            name, src = name
            if not rep.startswith("ok"):
                ctx.mismatch("source-gating", {"scene": sc, "fn": name}, {"model": rep})
                continue
            parts = [x.strip() for x in rep[3:].split("|")]
            ctx.expect_equal("source-gating", {"scene": sc, "fn": name, "src": src}, bits(differs[(name, src)]), parts[0])
            if name in ("update_E", "update_H") and parts[3] == "0":
                idx = [int(x) for x in parts[1].split()]
                adj_req += [(src, t, idx[t]) for t in range(T) if idx[t] >= 0]
        if adj_req:
            model_adj = ctx.driver.ask_many([f"adj {i}" for (_, _, i) in adj_req])
            for (src, t, i), r in zip(adj_req, model_adj):
                got_adj = float(o[src].adjust_time_step_by_on_off(jnp.asarray(t, dtype=jnp.int32)))
                ctx.expect_close("adjust-time", {"scene": sc, "src": src, "t": t}, [got_adj], [h2f(r)], tol=1e-14)
    return detail


def random_scene(rng, T, dt):
    per = 8 * RES / 299792458.0

    def sw(allow_default=True):
        if allow_default and rng.chance(0.12):
            return mk_case(T, dt)
        c = random_switch_case(rng, T, dt, per=per, valid_only=True)
        return c
    kinds = sorted(EXTRA_KINDS)
    more = [{"name": f"s{k + 2}", "type": rng.choice(["electric", "magnetic"]), "pol": rng.randint(0, 2),
             "pos": [rng.randint(0, 3) for _ in range(3)], "switch": sw(), "amp": rng.choice([1.0, -0.5, 2.0])}
            for k in range(rng.randint(0, 1))]
    names = ["src_e", "src_h"] + [x["name"] for x in more]
    order = rng.shuffle(names)
    return {"T": T, "src_e": sw(), "src_h": sw(), "dets": [[sw(), False], [sw(), rng.chance(0.5)]],
            "seed": rng.np_seed(), "only": rng.choice(["forward", "reverse"]),
            "extras": [[rng.choice(kinds), sw(False)] for _ in range(2)],
            "more": more, "order": order, "orders": [order[::-1]]}


def seed_sources(T, dt):
    """five sources: always-on (default switch) and always-off dipoles listed among windowed / fixed-step ones"""
    more = [{"name": "s2", "type": "electric", "pol": 1, "pos": [0, 1, 3], "switch": mk_case(T, dt), "amp": 0.7},
            {"name": "s3", "type": "electric", "pol": 0, "pos": [3, 0, 0], "switch": mk_case(T, dt, off=True), "amp": 1.0},
            {"name": "s4", "type": "magnetic", "pol": 2, "pos": [1, 3, 0], "switch": mk_case(T, dt, st=1 * dt, interval=2), "amp": -1.5}]
    order = ["s2", "src_e", "s4", "src_h", "s3"]
    return {"more": more, "order": order, "orders": [order[::-1]]}


def with_all_orders(sc, cap=12):
    """the scene with every list order of its sources (used by the failing-input search)"""
    import itertools
    names = [sp["name"] for sp in source_specs(sc)]
    perms = [list(p) for p in itertools.permutations(names)]
    if len(perms) > cap:
        perms = perms[:: max(1, len(perms) // cap)][:cap]
    return dict(sc, orders=perms)


def seed_extras(T, dt):
    """every per-step detector kind with a schedule whose record slot differs from the time step"""
    sws = [mk_case(T, dt, st=2 * dt, interval=2), mk_case(T, dt, fixed=[3, 7, 8]), mk_case(T, dt, st=1.5 * dt, interval=3),
           mk_case(T, dt, fixed=[6, 2]), mk_case(T, dt, st=3 * dt, et=8.2 * dt, interval=2), mk_case(T, dt, interval=4),
           mk_case(T, dt, fixed=[9, 1, 5]), mk_case(T, dt, fixed=[1, 4, 5]), mk_case(T, dt, et=7 * dt, interval=3),
           mk_case(T, dt, st=4 * dt)]
    return [[k, sws[i % len(sws)]] for i, k in enumerate(sorted(EXTRA_KINDS))]


# ------------------------------------------------------------------------------------------- K
def run(ctx):
    cases = grid_cases(ctx)
    replies = ctx.driver.ask_many([line_of(c) for _, c in cases])
    for (group, c), rep in zip(cases, replies):
        impl = impl_reply(c)
        ctx.case(sample={"op": "sw", "case": c, "reply": rep} if group == "valid" and c["start_time"] == 0.2 and c["on_for_time"] == 0.1 else None,
                 nontrivial=nontrivial_key(c, impl), group=group, outcome=impl.split()[1] if impl.startswith("error") else "ok",
                 T=c["T"])
        if not same_reply(impl, rep):
            ctx.mismatch("sw", c, {"impl": impl[:300], "model": rep[:300]})
        ctx.impl_property_evals += 1
        d = property_fails_switch(c, impl)
        if d:
            ctx.violation({"kind": "switch", "case": c}, d)
    ctx.exhaustive = True
    ctx.extra["exhaustive_bounds"] = {"T_max": ctx.scale(12, 24), "presence_patterns": 128, "switch_cases": len(cases)}
    # (b) scenes
    dt = scene_dt()
    for i in range(ctx.scale(3, 40)):
        T = ctx.rng.randint(6, ctx.scale(11, 20))
        sc = random_scene(ctx.rng, T, dt)
        if i == 0:   # a fixed seed scene: late start for both sources, strided detector
            sc = {"T": 10, "src_e": mk_case(10, dt, st=3 * dt, et=6.5 * dt), "src_h": mk_case(10, dt, fixed=[4, 7]),
                  "dets": [[mk_case(10, dt, interval=3), False], [mk_case(10, dt, st=2 * dt, oft=4 * dt, interval=2), True],
                           [mk_case(10, dt, off=True), False], [mk_case(10, dt, fixed=[]), True],    # never active
                           [mk_case(10, dt, fixed=[5, 1, 3]), False],       # written out of time order
                           [mk_case(10, dt, fixed=[2, 2, 4, 9, 4]), False]],  # repeated steps: one record each
                  "seed": 5, "extras": seed_extras(10, dt), **seed_sources(10, dt)}
        d = run_scene_case(ctx, sc)
        ctx.case(sample={"op": "scene", "scene": sc} if i == 0 else None, nontrivial=("scene", i), group="scene", T=T)
        if d:
            ctx.violation({"kind": "scene", "scene": sc}, d)


# ------------------------------------------------------------------------------------------- S
def canon_scene(sc):
    import json
    return json.dumps(sc, sort_keys=True, default=str)


def search(ctx, hints):
    tried = set()
    for h in hints:
        if isinstance(h, dict) and "T" in h and "dt" in h:
            d = property_fails_switch(h)
            if d:
                ctx.violation({"kind": "switch", "case": h}, d)
                return
        if isinstance(h, dict) and "scene" in h:
            key = canon_scene(h["scene"])
            if key in tried:
                continue
            tried.add(key)
            sc = with_all_orders(h["scene"])
            d = run_scene_case(ctx, sc, check_model=False)
            if d:
                ctx.violation({"kind": "scene", "scene": sc}, d)
                return
    # schedules, small T first
    saveT = ctx.tier
    for group, c in sorted(grid_cases(ctx), key=lambda gc: gc[1]["T"]):
        ctx.impl_property_evals += 1
        d = property_fails_switch(c)
        if d:
            ctx.violation({"kind": "switch", "case": c}, d)
            return
    dt = scene_dt()
    rng = ctx.rng.fork()
    for i in range(30):
        sc = with_all_orders(random_scene(rng, rng.randint(4, 9), dt), cap=6)
        d = run_scene_case(ctx, sc, check_model=False)
        if d:
            ctx.violation({"kind": "scene", "scene": sc}, d)
            return


def replay(ctx, inp):
    if inp.get("kind") == "switch":
        return property_fails_switch(inp["case"])
    return run_scene_case(ctx, inp["scene"], check_model=False)
