"""C26 — resolved object placement satisfies every constraint.
fdtdx.resolve_object_constraints / place_objects vs lean/FdtdxModel/C26.lean (op `solve`)."""
import hashlib
import json

from . import place_common as pc

RULE = ("K: constraint systems from a structured generator (1-8 objects incl. the volume, grids of 1-8 cells per axis, uniform "
        "(spacings 1, 0.5, 0.1, 2.5e-8; centre (0,0,0) or shifted: non-zero, pairwise different components of both signs that "
        "are no multiples of the spacing) and non-uniform explicit grids; per object and axis a target slice is described through a "
        "random mix of partial_grid_shape / partial_real_shape / partial_real_position and the five constraint kinds "
        "(single- and multi-axis, real and index-space margins/offsets, anchors -1/0/1/+-0.5, coordinates with jitter and exact "
        "ties), then perturbed: redundant or conflicting extra coordinates / position constraints / sizes, dropped constraints, "
        "degenerate numbers (zero, negative, out-of-volume, oversize), malformed systems (duplicate names, two volumes, unknown "
        "names), index-space offsets on stretched grids, tiny max_iter); plus a fixed+random 'staggered' family: 2- and 3-axis "
        "PositionConstraints whose axes become resolvable in different passes (size from SizeConstraint chains of depth 1-3 on "
        "objects positioned later, constraints listed in reverse dependency order, dependents left to extension-to-infinity). "
        "Each system is solved by "
        "fdtdx.resolve_object_constraints in its own order and in permuted object/constraint orders and by the compiled Lean "
        "model; compared exactly: raised / flagged object set / every slice bound (also of failed placements). place_objects is "
        "run on a subset (raises iff the model fails; placed grid_slice_tuple = model slices). Independent oracle on every "
        "successful implementation result: bounds inside the volume, positive size, every constraint and static "
        "shape/position re-checked arithmetically on the final slices (nearest-edge property, not the model's argmin), "
        "unconstrained axes span the volume. non-trivial = system with at least one constraint and two objects.")


def digest(sys, oo, co):
    return hashlib.sha1(json.dumps([pc.strip(sys), oo, co], sort_keys=True).encode()).hexdigest()[:12]


def property_fails(sys, oo=None, co=None):
    """C26 on the real code for one system and order; returns a detail string or None"""
    out = pc.run_impl(sys, oo, co)
    v = pc.c26_violations(sys, out)
    return ("placement succeeded (" + json.dumps(out["slices"]) + ") but " + "; ".join(v[:3])) if v else None


def cases_for(ctx, n, rng):
    out = [(pc.witness_early_exit(), {"family": "witness"}), (pc.witness_real_position_skip(), {"family": "witness"}),
           (pc.witness_volume_bound(), {"family": "witness"})]
    for s in pc.small_systems()[:: ctx.scale(3, 1)]:
        out.append((s, {"family": "small"}))
    # multi-axis position constraints whose axes resolve in different passes (chains of size constraints on objects
    # positioned later), listed in the adversarial (reverse dependency) order, dependents left to the extension step
    for s in pc.staggered_systems(rng, n_random=ctx.scale(6, 40)):
        out.append((s, {"family": "staggered"}))
    for s in pc.centred_systems():
        out.append((s, {"family": "centred"}))
    n += len(out)
    while len(out) < n:
        s, tags = pc.gen_system(rng, big=ctx.thorough and rng.chance(0.3))
        tags["family"] = "generated"
        out.append((s, tags))
    return out


def compare(ctx, jobs, op="solve"):
    """jobs: list of (sys, oo, co, impl_outcome). One batched model run, exact comparison."""
    lines = []
    for s, oo, co, out in jobs:
        if pc.grid_info(s) is None:      # the code cannot even realise the grid (malformed volume): dummy edges
            s["_grid"] = dict(edges=[[0.0, 1.0]] * 3, uniform=True, h=1.0)
        lines.append(pc.encode(s, oo, co, op=op))
    reps = ctx.driver.ask_many(lines)
    res = []
    for (s, oo, co, out), rep in zip(jobs, reps):
        m = pc.parse_reply(rep)
        case = {"sys": pc.strip(s), "obj_order": oo, "con_order": co}
        same = pc.same_outcome(out, m)
        if not same:
            ctx.mismatch("solve", case, {"impl": json.dumps(out)[:300], "model": json.dumps(m)[:300]})
        res.append((m, same))
    return res


def run(ctx):
    n = ctx.scale(110, 1500)
    # consecutive VERIF_SEEDs give SplitMix streams that are shifts of each other (they re-synchronise after a few
    # variable-length draws); fork once so that every seed really generates different systems
    rng = ctx.rng.fork()
    jobs, meta = [], []
    for s, tags in cases_for(ctx, n, rng):
        nc, no = len(s["constraints"]), len(s["objects"])
        ords = [(list(range(no)), list(range(nc)))]
        ords.append((rng.shuffle(range(no)), rng.shuffle(range(nc))))
        if tags["family"] != "generated" or rng.chance(0.3):
            ords.append((list(range(no))[::-1], list(range(nc))[::-1]))
        for oo, co in ords:
            out = pc.run_impl(s, oo, co)
            jobs.append((s, oo, co, out))
            meta.append(tags)
            kind = "ok" if pc.ok(out) else ("errors" if out["kind"] == "done" else "raised")
            ctx.case(sample={"sys": pc.strip(s), "obj_order": oo, "con_order": co, "impl": out} if len(jobs) in (1, 40, 90) else None,
                     nontrivial=digest(s, oo, co) if (nc >= 1 and no >= 2) else None,
                     outcome=kind, grid=tags.get("grid", "uniform"), objects=no, constraints=min(nc, 12),
                     perturbation=tags.get("perturbation", tags["family"]))
            for md in tags.get("modes", []):
                ctx.dist.setdefault("axis_mode", {})
                ctx.dist["axis_mode"][md] = ctx.dist["axis_mode"].get(md, 0) + 1
            for md in tags.get("pieces", []):
                ctx.dist.setdefault("piece", {})
                ctx.dist["piece"][md] = ctx.dist["piece"].get(md, 0) + 1
            # the property itself, on the implementation
            ctx.impl_property_evals += 1
            v = pc.c26_violations(s, out)
            if v:
                if not ctx.violations:                    # shrink the first one only
                    _report(ctx, s, oo, co)
                else:
                    ctx.violation({"sys": pc.strip(s), "obj_order": oo, "con_order": co},
                                  "placement succeeded (" + json.dumps(out["slices"]) + ") but " + "; ".join(v[:3]))
    res = compare(ctx, jobs)
    # place_objects: the public entry point raises exactly when the solver reports errors, and the placed
    # objects carry the resolved slices
    k = 0
    for (s, oo, co, out), (m, same) in zip(jobs, res):
        if k >= ctx.scale(8, 40):
            break
        if s["grid"]["kind"] != "uniform" or len(s["objects"]) > 4 or max(max(x or 0 for x in o["gshape"]) for o in s["objects"]) > 8:
            continue
        if out["kind"] == "raised" or not (pc.ok(out) or k % 3 == 0):
            continue
        if s.get("max_iter", 1000) != 1000:
            continue                                      # place_objects always uses the default max_iter
        k += 1
        po = pc.run_place_objects(s, oo, co)
        ctx.case(nontrivial=("place_objects", digest(s, oo, co)), op="place_objects", outcome=po[0])
        case = {"sys": pc.strip(s), "obj_order": oo, "con_order": co, "entry": "place_objects"}
        if pc.ok(m):
            exp = ("ok", {i: sl for i, sl in m["slices"].items()})
            if po[0] != "ok" and po[1] == "ValueError" and _volume_shape_mismatch(s, m):
                continue      # the volume does not fill the grid: place_objects rejects it after the solver
            ctx.expect_equal("place_objects", case, json.dumps(po, sort_keys=True), json.dumps(exp, sort_keys=True))
        else:
            ctx.expect_equal("place_objects", case, po[0], "raised")


def _volume_shape_mismatch(s, m):
    gi = pc.grid_info(s)
    vol = next(i for i, o in enumerate(s["objects"]) if o["vol"])
    return any(m["slices"][vol][a][1] - m["slices"][vol][a][0] != len(gi["edges"][a]) - 1 for a in range(3))


# ------------------------------------------------------------------------------------------- S
def _report(ctx, sys, oo, co):
    """shrink the failing (permuted) system and report it"""
    m = pc.materialize(sys, oo, co)
    small, d = pc.shrink(m, lambda c: property_fails(c))
    if small is not None:
        ctx.violation({"sys": pc.json_copy(small), "obj_order": None, "con_order": None}, d)
    else:
        ctx.violation({"sys": pc.strip(sys), "obj_order": oo, "con_order": co}, property_fails(sys, oo, co))


def search(ctx, hints):
    import itertools
    for h in hints[:60]:
        if isinstance(h, dict) and "sys" in h:
            ctx.impl_property_evals += 1
            hs = pc.json_copy(h["sys"])          # a copy: running it caches built objects on the dict
            if property_fails(hs, h.get("obj_order"), h.get("con_order")):
                _report(ctx, hs, h.get("obj_order"), h.get("con_order"))
                return
    # smallest systems first: the systematic two-object family under every constraint order
    for s in pc.small_systems():
        nc = len(s["constraints"])
        for co in itertools.permutations(range(nc)):
            ctx.impl_property_evals += 1
            if property_fails(s, None, list(co)):
                _report(ctx, s, None, list(co))
                return
    rng = ctx.rng.fork()
    for _ in range(ctx.scale(1500, 8000)):
        s, _tags = pc.gen_system(rng)
        for oo, co in pc.orders(s, rng, max_perm_cons=3, n_random=4)[:8]:
            ctx.impl_property_evals += 1
            if property_fails(s, oo, co):
                _report(ctx, s, oo, co)
                return


def replay(ctx, inp):
    return property_fails(inp["sys"], inp.get("obj_order"), inp.get("con_order"))
