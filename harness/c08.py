"""C08 — equivariance under the cyclic relabelling x→y, y→z, z→x.

Oracle (the property itself, on the real code): a random tiny scene and its two cyclic rotations are built through
the public API and run with fdtdx.run_fdtd; final fields and raw detector records are compared after rotating back.
K: one forward step of every orientation of the PML-free scenes vs the shared Yee model, where orientations 1 and 2 are
produced by the Lean `rot` (ops rotfwd / rotpoynting of FdtdxModel/C08.lean), which ties the `rot` of the theorems to
the relabelling the oracle uses."""
import numpy as np

from . import yee_api as Y

RULE = ("scenes from the seed, each built in all three cyclic orientations through the public API (SimulationVolume, "
        "BoundaryConfig/boundary_objects_from_config, sources, detectors, place_objects) and run with run_fdtd for 4..12 "
        "steps: 4..8 cells per axis (pairwise different where possible), per face none/periodic/pec/pmc/pml (PML "
        "thickness 2..3, optional kappa grading, or explicit sigma/kappa/alpha start/end/order per face — different on the two "
        "faces of an axis, always so in the first quick scene), uniform or non-uniform grid (widths rotated), 1..2 sources out of "
        "UniformPlaneSource / GaussianPlaneSource (every propagation axis, both directions, oblique transverse "
        "polarisation vector rotated, non-zero azimuth_angle / elevation_angle of both signs: unchanged by the relabelling) and PointDipoleSource (electric/magnetic, polarisation index and position "
        "rotated, tilted by azimuth/elevation as well) with CW or pulse profile, FieldDetector and PoyntingFluxDetector without exact interpolation "
        "(sub-boxes, reduce_volume on/off, keep_all_components, fixed_propagation_axis), materials overwritten by "
        "rotated random arrays (isotropic, diagonal, or full 9-component tensors rotated as R T R^T; optional sigma_E / "
        "sigma_H, incl. full 9-component conductivity tensors with all off-diagonals non-zero next to full inv_eps / inv_mu) or built through the public Material API and placed as UniformMaterialObject boxes (no overwrite): "
        "diagonal permittivity/permeability, conductivities given as 3-tuple / 9-tuple / nested tuple with a SINGLE non-zero "
        "component (one diagonal entry, or a lone off-diagonal entry), full tensors rotated as R T R^T; the placed material "
        "arrays themselves (allocation, shape, values) are compared across orientations too. "
        "The quick tier forces: a scene with PML on an axis pair, a '+' uniform plane source + electric dipole, full inv_eps "
        "AND full sigma_E; a scene with one-sided PML + PEC/PMC + '-' Gaussian plane source + dipole, full inv_mu AND full "
        "sigma_H; a PML-free scene with Material-API boxes in the diagonal tier with lone diagonal sigma_E / sigma_H entries (compared "
        "with the model on the arrays place_objects produced); a tiny scene with full-tensor Materials with a lone "
        "off-diagonal entry in permittivity, sigma_E, sigma_H. Oracle: max |rot^-r(result_r) "
        "- result_0| <= 1e-9 * max|result| for E, H and every raw record (run_fdtd resets the fields, so levels are set by the sources). K: forward() of each orientation of "
        "PML-free scenes (tiers <= 3) vs model fwd / rotfwd, Poynting record vs rotpoynting; scenes with PML (quick: the first one): forward() incl. "
        "the psi arrays of every PML vs the Lean CPML model applied to the Lean-relabelled request of the previous "
        "orientation (op rotpmlfwd; random diagonal-tier materials, fields, psi); exhaustively over the three "
        "axes get_oriented_transverse_axes / get_transverse_axes vs the model (hvp / ascending) and the cyclic relabelling of "
        "tilted_polarization_vectors (random azimuth/elevation of both signs, both directions, E- or H-given polarisation). non-trivial = every scene "
        "(all have sources and a non-cubic shape or distinct faces).")

FACES = Y.FACES


# ------------------------------------------------------------------------------------------ rotation of a case
def rl(l):
    """per-axis list/tuple: what belonged to axis a now belongs to axis a+1"""
    return [l[2], l[0], l[1]]


def rot_face(name):
    side, ax = name.split("_")
    return side + "_" + "xyz"[("xyz".index(ax) + 1) % 3]


def rot_case(c):
    d = dict(c)
    d["shape"] = rl(c["shape"])
    d["faces"] = {rot_face(k): v for k, v in c["faces"].items()}
    d["thick"] = {rot_face(k): v for k, v in c["thick"].items()}
    d["kappa"] = {rot_face(k): v for k, v in c["kappa"].items()}
    d["pmlpar"] = {rot_face(k): dict(v) for k, v in c.get("pmlpar", {}).items()}
    d["widths"] = None if c["widths"] is None else rl(c["widths"])
    srcs = []
    for s in c["sources"]:
        t = dict(s)
        t["axis"] = (s["axis"] + 1) % 3
        t["pos"] = rl(s["pos"])
        if s["kind"] in ("uniform", "gauss"):
            t["pol"] = rl(s["pol"])
        else:
            t["pol"] = (s["pol"] + 1) % 3
        srcs.append(t)
    d["sources"] = srcs
    dets = []
    for q in c["detectors"]:
        t = dict(q)
        t["lo"], t["size"] = rl(q["lo"]), rl(q["size"])
        if q.get("fixed_axis") is not None:
            t["fixed_axis"] = (q["fixed_axis"] + 1) % 3
        dets.append(t)
    d["detectors"] = dets
    boxes = []
    for b in c["boxes"]:
        t = dict(b)
        t["lo"], t["size"] = rl(b["lo"]), rl(b["size"])
        for key in ("eps", "mu", "sig_e", "sig_h"):
            if b.get(key) is not None:
                t[key] = rot9(b[key])
        boxes.append(t)
    d["boxes"] = boxes
    d["orientation"] = c.get("orientation", 0) + 1
    return d


def rot9(v):
    """row-major 3x3 tensor (xx, xy, xz, yx, …) of a material → relabelled tensor R T R^T (entry (a,b) moves to (a+1,b+1))"""
    T = np.asarray(v, dtype=np.float64).reshape(3, 3)
    return T[[2, 0, 1]][:, [2, 0, 1]].reshape(-1).tolist()


def rot_vec(A):
    """(3, nx, ny, nz) vector field → relabelled (3, nz, nx, ny); the numpy twin of Lean `rotV`"""
    return np.transpose(A, (0, 3, 1, 2))[[2, 0, 1]]


def rot_arr(A):
    """component-stacked material array: 1 → scalar, 3 → diagonal, 9 → full tensor (R T R^T)"""
    A = np.asarray(A)
    B = np.transpose(A, (0, 3, 1, 2))
    if A.shape[0] == 1:
        return B
    if A.shape[0] == 3:
        return B[[2, 0, 1]]
    T = B.reshape((3, 3) + B.shape[1:])
    return T[[2, 0, 1]][:, [2, 0, 1]].reshape((9,) + B.shape[1:])


def unrot_vec(A, r):
    for _ in range((3 - r) % 3):
        A = rot_vec(A)
    return A


def unrot_scalar(A, r):
    """(…, n0, n1, n2) scalar array of orientation r → orientation 0 (last three axes)"""
    for _ in range((3 - r) % 3):
        A = np.moveaxis(A, -1, -3)
    return A


# ------------------------------------------------------------------------------------------------- generator
PAIRS = [("none", "none"), ("periodic", "periodic"), ("pec", "pec"), ("pmc", "pmc"), ("pec", "none"), ("none", "pmc"),
         ("pec", "pmc"), ("pml", "pml"), ("pml", "none"), ("pec", "pml"), ("pml", "pmc"), ("pml", "pml")]


def gen_case(rng, thorough, force=None):
    force = force or {}
    c = {"orientation": 0}
    pairs = force.get("pairs") or [rng.choice(PAIRS) for _ in range(3)]
    faces, thick, kappa = {}, {}, {}
    shape = []
    for ax in range(3):
        lo, hi = pairs[ax]
        faces[FACES[2 * ax]], faces[FACES[2 * ax + 1]] = lo, hi
        tsum = 0
        for side, kind in ((0, lo), (1, hi)):
            k = FACES[2 * ax + side]
            thick[k] = rng.choice([2, 3]) if kind == "pml" else 1
            kappa[k] = rng.choice([1.0, 1.0, 2.5]) if kind == "pml" else 1.0
            if kind == "pml":
                tsum += thick[k]
        shape.append(rng.randint(max(4, tsum + 2), max(force.get("max_n", 8), tsum + 2, 4)))
    # make the shape non-cubic so that a transposition of the transverse axes cannot hide
    if shape[0] == shape[1] == shape[2]:
        top = force.get("max_n", 8)
        shape[rng.randint(0, 2)] = top if shape[0] != top else top - 1
    c["shape"], c["faces"], c["thick"], c["kappa"] = shape, faces, thick, kappa
    # explicit per-face PML grading (every BoundaryConfig parameter of that face), different on the two faces of an axis: the
    # per-face getters of BoundaryConfig (get_sigma_dict, get_order_dict, ...) are then exercised face by face, and the
    # asymmetric axis visits x, y and z across the three orientations
    pmlpar = {}
    explicit = force.get("pml_explicit", rng.chance(0.5))
    for ax in range(3):
        for side in (0, 1):
            k = FACES[2 * ax + side]
            if faces[k] == "pml" and explicit:
                pmlpar[k] = {"sigma_start": rng.uniform(0.0, 2.0e4), "sigma_end": rng.uniform(2.0e5, 8.0e5),
                             "sigma_order": [2.0, 4.0][side] if faces[FACES[2 * ax + 1 - side]] == "pml" else rng.choice([2.0, 3.0, 4.0]),
                             "kappa_start": rng.choice([1.0, 1.2]), "kappa_end": rng.uniform(1.0, 3.0),
                             "kappa_order": rng.choice([1.0, 2.0, 3.0]), "alpha_start": rng.uniform(50.0, 200.0),
                             "alpha_end": rng.uniform(0.0, 50.0), "alpha_order": rng.choice([1.0, 2.0])}
    c["pmlpar"] = pmlpar
    c["widths"] = None
    if force.get("nonuniform", rng.chance(0.3)):
        c["widths"] = [[50e-9 * rng.uniform(0.7, 1.5) for _ in range(n)] for n in shape]
    kinds = force.get("sources") or [rng.choice(["uniform", "gauss", "dipole_e", "dipole_m"]) for _ in range(rng.choice([1, 2]))]
    srcs = []
    for i, kind in enumerate(kinds):
        ax = force.get("src_axis", [None] * 9)[i] if force.get("src_axis") else None
        ax = rng.randint(0, 2) if ax is None else ax
        dr = force.get("src_dir", [None] * 9)[i] if force.get("src_dir") else None
        dr = rng.choice(["+", "-"]) if dr is None else dr
        s = {"kind": kind, "axis": ax, "direction": dr, "profile": rng.choice(["cw", "pulse"]),
             "amp": rng.uniform(0.5, 2.0)}
        # keep plane sources out of the PML cells and one cell away from the faces
        # … and dipoles off the PEC/PMC wall layers (a dipole whose component is zeroed by the wall radiates nothing)
        wallpad = 1 if kind in ("dipole_e", "dipole_m") else 0
        lo_pad = [thick[FACES[2 * a]] if faces[FACES[2 * a]] == "pml" else (wallpad if faces[FACES[2 * a]] in ("pec", "pmc") else 0)
                  for a in range(3)]
        hi_pad = [thick[FACES[2 * a + 1]] if faces[FACES[2 * a + 1]] == "pml" else
                  (wallpad if faces[FACES[2 * a + 1]] in ("pec", "pmc") else 0) for a in range(3)]
        s["pos"] = [rng.randint(lo_pad[a], shape[a] - 1 - hi_pad[a]) for a in range(3)]
        if kind in ("uniform", "gauss"):
            th = rng.uniform(0.2, 1.3) * rng.choice([1.0, -1.0])
            pol = [0.0, 0.0, 0.0]
            pol[(ax + 1) % 3], pol[(ax + 2) % 3] = float(np.cos(th)), float(np.sin(th))
            s["pol"] = pol
            s["use_h"] = rng.chance(0.25)
        else:
            s["pol"] = rng.randint(0, 2)
        # tilt: azimuth / elevation (degrees) rotate polarisation and wave vector about the (horizontal, vertical,
        # propagation) = (a+1, a+2, a) triple of the source; a cyclic relabelling shifts the whole triple, so the ANGLES stay
        # the same in every orientation — any axis-dependent choice of the triple shows up as broken equivariance
        tilt = force.get("tilt", rng.chance(0.6))
        s["azimuth"] = rng.uniform(8.0, 35.0) * rng.choice([1.0, -1.0]) if tilt else 0.0
        s["elevation"] = rng.uniform(8.0, 35.0) * rng.choice([1.0, -1.0]) if tilt else 0.0
        srcs.append(s)
    c["sources"] = srcs
    dets = []
    for i in range(2):
        kind = "field" if i == 0 else "poynting"
        size = [rng.randint(1, min(3, n)) for n in shape]
        q = {"kind": kind, "reduce": rng.chance(0.3)}
        if kind == "poynting":
            q["keep_all"] = rng.chance(0.3)
            q["direction"] = rng.choice(["+", "-"])
            if q["keep_all"]:
                # place_on_grid stacks per-axis face-area arrays, which only have equal shapes for a single cell
                size = [1, 1, 1]
                q["fixed_axis"] = rng.randint(0, 2)
            elif rng.chance(0.5):
                a = rng.randint(0, 2)
                size[a] = 1
                for b in range(3):
                    if b != a and size[b] == 1:
                        size[b] = 2
                q["fixed_axis"] = None
            else:
                q["fixed_axis"] = rng.randint(0, 2)
        q["size"] = size
        q["lo"] = [rng.randint(0, n - sz) for n, sz in zip(shape, size)]
        dets.append(q)
    c["detectors"] = dets
    c["mat_mode"] = force.get("mat_mode") or rng.choice(["arrays", "arrays", "arrays", "boxes"])
    has_plane = any(s["kind"] in ("uniform", "gauss") for s in srcs)
    c["eps_tier"] = force.get("eps_tier") or rng.choice([1, 3, 3, 9])
    c["mu_tier"] = force.get("mu_tier", rng.choice([0, 1, 3, 3, 9]))
    # lossy full tensors: a 9-component conductivity (all off-diagonals non-zero) next to the 9-component inverse
    # permittivity (resp. permeability). Only then is the `A` matrix of the full-tensor update different from the identity,
    # i.e. only then are the off-diagonal FIELD averages (Ey at Ez, Hx at Hy, ...) of update_E/update_H exercised at all.
    c["sig_e_full"] = bool(force.get("sig_e_full", c["eps_tier"] == 9 and rng.chance(0.6)))
    c["sig_h_full"] = bool(force.get("sig_h_full", c["mu_tier"] == 9 and rng.chance(0.6)))
    if c["sig_e_full"]:
        c["eps_tier"] = 9
    if c["sig_h_full"]:
        c["mu_tier"] = 9
    c["sig_e"] = c["sig_e_full"] or (c["eps_tier"] != 9 and rng.chance(0.35))
    c["sig_h"] = c["sig_h_full"] or (c["mu_tier"] != 9 and rng.chance(0.25))
    boxes = []
    if c["mat_mode"] == "boxes":
        # materials through the PUBLIC Material API (no array overwrite): exercises the classification predicates
        # (is_*_conductive, is_magnetic, isotropic/diagonal/full tiers) and the array allocation of place_objects
        specs = force.get("boxes") or [rng.choice(["diag_sig_e", "diag_sig_h", "diag", "full_eps", "full_sig_e", "full_sig_h", "full"])
                                       for _ in range(rng.choice([1, 2, 3]))]
        if has_plane:
            specs = [sp for sp in specs if not sp.startswith("full")] or ["diag_sig_e"]
        for sp in specs:
            size = [rng.randint(2, max(2, n - 1)) for n in shape]
            lo = [rng.randint(0, n - sz) for n, sz in zip(shape, size)]
            crosses = any(s["kind"] in ("uniform", "gauss") and lo[s["axis"]] <= s["pos"][s["axis"]] < lo[s["axis"]] + size[s["axis"]]
                          for s in srcs)
            d = [rng.uniform(1.5, 4.0) for _ in range(3)]
            m = [rng.uniform(1.0, 2.5) for _ in range(3)]
            if crosses:      # plane sources refuse an anisotropic medium on their own plane at placement
                d, m = [d[0]] * 3, [m[0]] * 3
            b = {"lo": lo, "size": size, "spec": sp, "eps": np.diag(d).reshape(-1).tolist(), "mu": None, "sig_e": None,
                 "sig_h": None, "form": rng.choice(["3", "9", "nested"])}
            lone = rng.randint(0, 2)                       # which diagonal entry carries the ONLY non-zero conductivity
            off = rng.choice([(0, 1), (0, 2), (1, 0), (1, 2), (2, 0), (2, 1)])   # lone off-diagonal entry

            def single(idx, val):
                T = np.zeros((3, 3))
                T[idx] = val
                return T.reshape(-1).tolist()
            if sp == "diag_sig_e":
                b["sig_e"] = single((lone, lone), rng.uniform(0.01, 0.03))
            elif sp == "diag_sig_h":
                b["mu"] = np.diag(m).reshape(-1).tolist()
                b["sig_h"] = single((lone, lone), rng.uniform(1.0e3, 3.0e3))
            elif sp == "full_eps":
                T = np.diag(d)
                T[off] = rng.uniform(0.2, 0.5) * rng.choice([-1.0, 1.0])
                b["eps"] = T.reshape(-1).tolist()
            elif sp == "full_sig_e":
                b["sig_e"] = single(off, rng.uniform(0.01, 0.03))
            elif sp == "full_sig_h":
                b["mu"] = np.diag(m).reshape(-1).tolist()
                b["sig_h"] = single(off, rng.uniform(1.0e3, 3.0e3))
            elif sp == "full":
                T = np.diag(d)
                o = [rng.uniform(-0.4, 0.4) for _ in range(3)]
                T[0, 1] = T[1, 0] = o[0]
                T[0, 2] = T[2, 0] = o[1]
                T[1, 2] = T[2, 1] = o[2]
                b["eps"] = T.reshape(-1).tolist()
                b["sig_e"] = single((lone, lone), rng.uniform(0.01, 0.03))
            boxes.append(b)
    c["boxes"] = boxes
    c["init_fields"] = force.get("init_fields", rng.chance(0.7))
    c["steps"] = rng.randint(4, 12 if thorough else 9)
    c["seed"] = rng.np_seed()
    return c


# -------------------------------------------------------------------------------------------- scene builder
def build(c):
    j = Y.J()
    f, jnp, jax = j["fdtdx"], j["jnp"], j["jax"]
    spacing = 50e-9
    if c["widths"] is None:
        grid = f.UniformGrid(spacing=spacing)
    else:
        edges = [np.concatenate([[0.0], np.cumsum(np.asarray(w, dtype=np.float64))]) for w in c["widths"]]
        grid = f.RectilinearGrid(x_edges=jnp.asarray(edges[0]), y_edges=jnp.asarray(edges[1]), z_edges=jnp.asarray(edges[2]))

    def mkcfg(time):
        return f.SimulationConfig(time=time, grid=grid, dtype=jnp.float64, backend="cpu", gradient_config=None,
                                  courant_factor=0.99)
    dt = float(mkcfg(1e-15).time_step_duration)
    cfg = mkcfg((c["steps"] + 0.01) * dt)
    vol = f.SimulationVolume(partial_grid_shape=tuple(c["shape"]))
    kw = {}
    for k in FACES:
        kk = k.replace("_", "")
        if c["faces"][k] != "none":
            kw[f"boundary_type_{kk}"] = c["faces"][k]
        kw[f"thickness_grid_{kk}"] = c["thick"][k]
        if c["faces"][k] == "pml" and c["kappa"][k] != 1.0:
            kw[f"kappa_end_{kk}"] = c["kappa"][k]
        for par, val in c.get("pmlpar", {}).get(k, {}).items():
            kw[f"{par}_{kk}"] = float(val)
    bc = f.BoundaryConfig(**kw)
    bd, cons = f.boundary_objects_from_config(bc, vol)
    objs, cs = [vol], []
    for (k, b), cc in zip(bd.items(), cons):
        if c["faces"][k] != "none":
            objs.append(b)
            cs.append(cc)
    wl = 4.0e-7

    def place(o, axes, lo):
        """lower corner of `o` at cell index lo[a] on the given axes"""
        if c["widths"] is None:
            if len(axes) == 1:
                return o.set_grid_coordinates(axes=axes[0], sides="-", coordinates=lo[0])
            return o.set_grid_coordinates(axes=tuple(axes), sides=tuple("-" for _ in axes), coordinates=tuple(lo))
        # index-space placement is refused on non-uniform grids: anchor the lower faces at the physical edge
        margins = tuple(float(np.sum(c["widths"][a][:l])) for a, l in zip(axes, lo))
        return o.place_relative_to(vol, axes=tuple(axes), own_positions=tuple(-1.0 for _ in axes),
                                   other_positions=tuple(-1.0 for _ in axes), margins=margins)
    def prop(v9, form):
        """a tensor property in the form the user would write it: 3-tuple when diagonal, 9-tuple / nested tuple otherwise"""
        T = np.asarray(v9, dtype=np.float64).reshape(3, 3)
        diagonal = not np.any(T - np.diag(np.diag(T)))
        if diagonal and form == "3":
            return (float(T[0, 0]), float(T[1, 1]), float(T[2, 2]))
        if form == "nested":
            return tuple(tuple(float(x) for x in row) for row in T)
        return tuple(float(x) for x in T.reshape(-1))
    for i, b in enumerate(c["boxes"]):
        kwm = {"permittivity": prop(b["eps"], b.get("form", "3"))}
        if b.get("mu") is not None:
            kwm["permeability"] = prop(b["mu"], b.get("form", "3"))
        if b.get("sig_e") is not None:
            kwm["electric_conductivity"] = prop(b["sig_e"], b.get("form", "3"))
        if b.get("sig_h") is not None:
            kwm["magnetic_conductivity"] = prop(b["sig_h"], b.get("form", "3"))
        o = f.UniformMaterialObject(partial_grid_shape=tuple(b["size"]), material=f.Material(**kwm), name=f"box{i}")
        objs.append(o)
        cs.append(place(o, (0, 1, 2), b["lo"]))
    for i, s in enumerate(c["sources"]):
        wave = f.WaveCharacter(wavelength=wl)
        prof = f.SingleFrequencyProfile() if s["profile"] == "cw" else f.GaussianPulseProfile(
            spectral_width=f.WaveCharacter(wavelength=3 * wl), center_wave=wave)
        ax = s["axis"]
        if s["kind"] in ("uniform", "gauss"):
            shp = [None, None, None]
            shp[ax] = 1
            kw2 = dict(partial_grid_shape=tuple(shp), wave_character=wave, direction=s["direction"], temporal_profile=prof,
                       static_amplitude_factor=s["amp"], name=f"src{i}", azimuth_angle=s.get("azimuth", 0.0),
                       elevation_angle=s.get("elevation", 0.0))
            if s.get("use_h"):
                kw2["fixed_H_polarization_vector"] = tuple(s["pol"])
            else:
                kw2["fixed_E_polarization_vector"] = tuple(s["pol"])
            o = f.UniformPlaneSource(**kw2) if s["kind"] == "uniform" else f.GaussianPlaneSource(radius=1.3e-7, **kw2)
            cs.append(place(o, (ax,), [s["pos"][ax]]))
        else:
            o = f.PointDipoleSource(partial_grid_shape=(1, 1, 1), wave_character=wave, polarization=s["pol"],
                                    source_type="electric" if s["kind"] == "dipole_e" else "magnetic",
                                    temporal_profile=prof, static_amplitude_factor=s["amp"], name=f"src{i}",
                                    azimuth_angle=s.get("azimuth", 0.0), elevation_angle=s.get("elevation", 0.0))
            cs.append(place(o, (0, 1, 2), s["pos"]))
        objs.append(o)
    for i, q in enumerate(c["detectors"]):
        if q["kind"] == "field":
            o = f.FieldDetector(name=f"det{i}", partial_grid_shape=tuple(q["size"]), exact_interpolation=False,
                                dtype=jnp.float64, reduce_volume=q["reduce"], plot=False)
        else:
            o = f.PoyntingFluxDetector(name=f"det{i}", partial_grid_shape=tuple(q["size"]), exact_interpolation=False,
                                       dtype=jnp.float64, reduce_volume=q["reduce"], plot=False, direction=q["direction"],
                                       keep_all_components=q["keep_all"], fixed_propagation_axis=q["fixed_axis"])
        objs.append(o)
        cs.append(place(o, (0, 1, 2), q["lo"]))
    objects, arrays, params, config, info = f.place_objects(object_list=objs, config=cfg, constraints=cs,
                                                            key=jax.random.PRNGKey(0))
    sc = Y.Scene()
    sc.objects, sc.arrays, sc.params, sc.config = objects, arrays, params, config
    sc.shape, sc.faces, sc.widths = tuple(c["shape"]), dict(c["faces"]), c["widths"]
    sc.bloch_vector = (0.0, 0.0, 0.0)
    sc.volume = vol
    return sc


def base_arrays(c):
    """random material arrays and initial fields in orientation 0 (c must be the orientation-0 case)"""
    r = np.random.default_rng(c["seed"])
    nx, ny, nz = c["shape"]
    out = {}

    def spd(lo, hi, off):
        A = r.uniform(-off, off, (3, 3, nx, ny, nz))
        T = np.einsum("ik...,jk...->ij...", A, A) + r.uniform(lo, hi, (1, 1, nx, ny, nz)) * np.eye(3)[:, :, None, None, None]
        return T.reshape(9, nx, ny, nz)
    if c["eps_tier"] == 9:
        out["inv_eps"] = spd(0.3, 0.8, 0.25)
    else:
        out["inv_eps"] = r.uniform(0.2, 1.0, (c["eps_tier"], nx, ny, nz))
    if c["mu_tier"] == 0:
        out["inv_mu"] = None
    elif c["mu_tier"] == 9:
        out["inv_mu"] = spd(0.5, 0.9, 0.2)
    else:
        out["inv_mu"] = r.uniform(0.4, 1.0, (c["mu_tier"], nx, ny, nz))
    if c["eps_tier"] == 9 and out["inv_mu"] is None:
        out["inv_mu"] = None
    def full_sigma(scale):
        """symmetric positive definite conductivity tensor per cell with every off-diagonal entry bounded away from 0"""
        T = spd(0.8, 1.5, 0.4).reshape(3, 3, nx, ny, nz)
        off = r.uniform(0.15, 0.35, (3, 3, nx, ny, nz)) * r.choice([-1.0, 1.0], (3, 3, 1, 1, 1))
        off = 0.5 * (off + np.swapaxes(off, 0, 1)) * (1.0 - np.eye(3))[:, :, None, None, None]
        return ((T + off) * scale).reshape(9, nx, ny, nz)
    if c.get("sig_e_full"):
        out["sig_e"] = full_sigma(0.012)
    else:
        out["sig_e"] = r.uniform(0.0, 0.02, (c["eps_tier"], nx, ny, nz)) if c["sig_e"] else None
    if c.get("sig_h_full"):
        out["sig_h"] = full_sigma(1.2e3)
    else:
        out["sig_h"] = r.uniform(0.0, 2e3, (max(c["mu_tier"], 1), nx, ny, nz)) if c["sig_h"] else None
    if c["init_fields"]:
        out["E"], out["H"] = r.standard_normal((3, nx, ny, nz)), r.standard_normal((3, nx, ny, nz)) / 377.0 * 300
    else:
        out["E"] = out["H"] = None
    # plane sources need an isotropic medium on their own plane (calculate_time_offset_yee refuses anything else at
    # placement; here the arrays are overwritten after placement, so keep the physics sane anyway): not enforced.
    return out


def rot_arrays(a):
    out = {}
    for k, v in a.items():
        if v is None:
            out[k] = None
        elif k in ("E", "H"):
            out[k] = rot_vec(v)
        else:
            out[k] = rot_arr(v)
    return out


def state_of(sc, c, a):
    if c["mat_mode"] == "boxes":
        return Y.with_state(sc, a["E"], a["H"])
    return Y.with_state(sc, a["E"], a["H"], a["inv_eps"], a["inv_mu"], a["sig_e"], a["sig_h"])


def run_orientation(c, a):
    j = Y.J()
    sc = build(c)
    arrays = state_of(sc, c, a)
    t, out = j["fdtdx"].run_fdtd(arrays=arrays, objects=sc.objects, config=sc.config, key=j["jax"].random.PRNGKey(1),
                                 show_progress=False)
    res = {"E": np.asarray(out.fields.E), "H": np.asarray(out.fields.H), "t": int(t),
           "steps_total": int(sc.config.time_steps_total)}
    for i, q in enumerate(c["detectors"]):
        st = out.detector_states[f"det{i}"]
        res[f"det{i}"] = np.asarray(st["fields" if q["kind"] == "field" else "poynting_flux"])
    res["mats"] = container_mats(arrays)
    return sc, arrays, res


def container_mats(arrays):
    """material arrays of a container as numpy (None where not allocated; a scalar inv_mu becomes a 0-d array)"""
    out = {}
    for key, attr in (("inv_eps", "inv_permittivities"), ("inv_mu", "inv_permeabilities"), ("sig_e", "electric_conductivity"),
                      ("sig_h", "magnetic_conductivity")):
        v = getattr(arrays, attr)
        out[key] = None if v is None else np.asarray(v, dtype=np.float64)
    return out


def unrot_mat(A, r):
    if A is None or A.ndim == 0:
        return A
    for _ in range((3 - r) % 3):
        A = rot_arr(A)
    return A


def back_record(q, rec, r):
    """raw record of orientation r → layout of orientation 0"""
    if q["kind"] == "field":
        if q["reduce"]:     # (T, 6): spatial mean per component; only the components cycle
            E, H = rec[:, :3], rec[:, 3:]
            for _ in range((3 - r) % 3):
                E, H = E[:, [2, 0, 1]], H[:, [2, 0, 1]]
            return np.concatenate([E, H], axis=1)
        E, H = rec[:, :3], rec[:, 3:]
        E = np.stack([unrot_vec(x, r) for x in E])
        H = np.stack([unrot_vec(x, r) for x in H])
        return np.concatenate([E, H], axis=1)
    if q["keep_all"]:
        if q["reduce"]:     # (T, 3)
            for _ in range((3 - r) % 3):
                rec = rec[:, [2, 0, 1]]
            return rec
        return np.stack([unrot_vec(x, r) for x in rec])
    if q["reduce"]:
        return rec
    return unrot_scalar(rec, r)


def compare(c0, results):
    """None, or a description of the first difference between orientation r (rotated back) and orientation 0"""
    r0 = results[0]
    worst = (0.0, None)
    for r in (1, 2):
        rr = results[r]
        if rr["t"] != r0["t"] or rr["steps_total"] != r0["steps_total"]:
            return f"orientation {r}: {rr['t']}/{rr['steps_total']} steps vs {r0['t']}/{r0['steps_total']}"
        # the placed material arrays themselves (allocation and values): Material → array path of place_objects
        for key in ("inv_eps", "inv_mu", "sig_e", "sig_h"):
            a, b = r0["mats"][key], unrot_mat(rr["mats"][key], r)
            if (a is None) != (b is None):
                return (f"orientation {r}: material array {key} is {'not ' if b is None else ''}allocated, but "
                        f"{'not ' if a is None else ''}allocated in orientation 0")
            if a is None:
                continue
            if a.shape != b.shape:
                return f"orientation {r}: material array {key} has shape {b.shape} (rotated back) vs {a.shape}"
            e = float(np.max(np.abs(a - b))) / max(1e-300, float(np.max(np.abs(a))))
            if e > 1e-9:
                return f"orientation {r}: material array {key} (rotated back) differs from orientation 0 by {e:.3e}"
        for name in ("E", "H"):
            b = unrot_vec(rr[name], r)
            if b.shape != r0[name].shape:
                return f"orientation {r}: {name} shape {b.shape} vs {r0[name].shape}"
            # run_fdtd starts from zero fields, so the field level is set by the sources (1e-7 .. 1e-2): compare
            # relative to the largest entry of E (resp. H) itself; round-off noise is 1e-16 .. 1e-14 of that
            scale = max(1e-300, float(np.max(np.abs(r0[name]))), float(np.max(np.abs(b))))
            e = float(np.max(np.abs(b - r0[name]))) / scale
            if not np.isfinite(e):
                return f"orientation {r}: non-finite {name}"
            if e > worst[0]:
                worst = (e, f"{name} of orientation {r}")
        for i, q in enumerate(c0["detectors"]):
            b = back_record(q, rr[f"det{i}"], r)
            a = r0[f"det{i}"]
            if b.shape != a.shape:
                return f"orientation {r}: record det{i} shape {b.shape} vs {a.shape}"
            scale = max(1e-300, float(np.max(np.abs(a))), float(np.max(np.abs(b))))
            e = float(np.max(np.abs(b - a))) / scale
            if not np.isfinite(e):
                return f"orientation {r}: non-finite record det{i}"
            if e > worst[0]:
                worst = (e, f"{q['kind']} record det{i} of orientation {r}")
    if worst[0] > 1e-9:
        return f"rotated-back {worst[1]} differs from orientation 0 by {worst[0]:.3e} (relative)"
    return None


def run_scene(c0, want_model=False):
    """runs the three orientations; returns (detail or None, per-orientation (scene, case, arrays-dict, result))"""
    cases, arrs = [c0], [base_arrays(c0)]
    for r in (1, 2):
        cases.append(rot_case(cases[-1]))
        arrs.append(rot_arrays(arrs[-1]))
    per, results = [], []
    for r in range(3):
        sc, arrays, res = run_orientation(cases[r], arrs[r])
        results.append(res)
        per.append((sc, cases[r], arrs[r], arrays))
    return compare(c0, results), per, results


def property_fails(c0):
    d, _, _ = run_scene(c0)
    return d


# ----------------------------------------------------------------------------------------------- K vs model
def model_ok(c, results):
    """no PML and every material array of the placed/overwritten container in the diagonal tier"""
    if any(v == "pml" for v in c["faces"].values()):
        return False
    return all(v is None or v.ndim == 0 or v.shape[0] <= 3 for v in results[0]["mats"].values())


def k_model(ctx, c0, per):
    """forward() of each orientation vs the model; orientations 1, 2 through the Lean `rot` applied to the request of
    the previous orientation"""
    j = Y.J()
    jnp = j["jnp"]
    from fdtdx.fdtd.update import update_E, update_H
    reqs = []
    for r in range(3):
        sc, c, a, arrays = per[r]
        nx, ny, nz = c["shape"]
        E = a["E"] if a["E"] is not None else np.zeros((3, nx, ny, nz))
        H = a["H"] if a["H"] is not None else np.zeros((3, nx, ny, nz))
        # materials as they are in the container (overwritten arrays, or what place_objects made of the Material objects)
        m = container_mats(arrays)
        inv_mu = 1.0 if m["inv_mu"] is None else (float(m["inv_mu"]) if m["inv_mu"].ndim == 0 else m["inv_mu"])
        a = dict(a, inv_eps=m["inv_eps"], sig_e=m["sig_e"], sig_h=m["sig_h"])
        t = 1
        st = Y.impl_forward(sc, arrays, t=t, n=1)
        E1, H1 = np.asarray(st[1].fields.E), np.asarray(st[1].fields.H)
        # same container (overwritten or placed materials), fields zeroed: probes the additive source terms
        zero = arrays.aset("fields->E", jnp.zeros_like(arrays.fields.E)).aset("fields->H", jnp.zeros_like(arrays.fields.H))
        tt = jnp.asarray(t, dtype=jnp.int32)
        jE = np.asarray(update_E(tt, zero, sc.objects, sc.config, True).fields.E)
        jH = np.asarray(update_H(tt, zero, sc.objects, sc.config, True).fields.H)
        reqs.append((sc, c, (E, H, a["inv_eps"], inv_mu, a["sig_e"], a["sig_h"], (jE, jH)), (E1, H1)))
    for r in range(3):
        sc, c, (E, H, ie, im, se, sh, src), (E1, H1) = reqs[r]
        if r == 0:
            line = Y.request(sc, "fwd", E, H, ie, im, se, sh, src, 1)
        else:
            scp, cp, (Ep, Hp, iep, imp, sep, shp, srcp), _ = reqs[r - 1]
            line = Y.request(scp, "rotfwd", Ep, Hp, iep, imp, sep, shp, srcp, 1)
        mE, mH = Y.decode_fields(ctx.driver.ask(line), c["shape"])
        ctx.expect_close(f"forward orientation {r} vs model {'fwd' if r == 0 else 'rot(previous request)'}", c0,
                         np.concatenate([E1.ravel(), H1.ravel()]), np.concatenate([mE.ravel(), mH.ravel()]))
        # raw Poynting record of the state after the step vs the model's cross product of the rotated request
        if r > 0:
            scp, cp, _, (E1p, H1p) = reqs[r - 1]
            line = Y.request(scp, "rotpoynting", E1p, H1p, 1.0, 1.0, None, None, None, 0)
            mS, _ = Y.decode_fields(ctx.driver.ask(line), c["shape"])
            from fdtdx.core.physics.metrics import compute_poynting_flux
            S = np.asarray(compute_poynting_flux(jnp.asarray(E1), jnp.asarray(H1)))
            ctx.expect_close(f"compute_poynting_flux orientation {r} vs model rot", c0, S.ravel(), mS.ravel(),
                             floor=max(1e-30, float(np.max(np.abs(S)))))


def face_of(p):
    return ("min_" if p.direction == "-" else "max_") + "xyz"[p.axis]


def k_model_pml(ctx, c0, per):
    """scenes with PML layers: forward() of orientation r+1 (fields AND the psi arrays of every PML) vs the Lean CPML model
    applied to the Lean-relabelled request of orientation r (op rotpmlfwd; r = 0, 1, 2 closes the cycle). Materials of
    this step are random diagonal-tier arrays (the CPML model sits on the diagonal Yee tier), fields and psi random."""
    from . import cpml_api as CP
    j = Y.J()
    jnp = j["jnp"]
    from fdtdx.fdtd.update import update_E, update_H
    r0 = np.random.default_rng(c0["seed"] + 17)
    nx, ny, nz = c0["shape"]
    base = {"E": r0.standard_normal((3, nx, ny, nz)), "H": r0.standard_normal((3, nx, ny, nz)),
            "ie": r0.uniform(0.2, 1.0, (3, nx, ny, nz)), "im": r0.uniform(0.4, 1.0, (3, nx, ny, nz))}
    sc0 = per[0][0]
    psi0 = {face_of(p): [r0.standard_normal(p.grid_shape) for _ in range(4)] for p in CP.pml_list(sc0)}
    data = []
    for r in range(3):
        sc, c, a, _ = per[r]
        cur = {k: v for k, v in base.items()}
        psi = {k: list(v) for k, v in psi0.items()}
        for _ in range(r):
            cur = {"E": rot_vec(cur["E"]), "H": rot_vec(cur["H"]), "ie": rot_arr(cur["ie"]), "im": rot_arr(cur["im"])}
            psi = {rot_face(k): [np.transpose(x, (2, 0, 1)) for x in v] for k, v in psi.items()}
        pmls = CP.pml_list(sc)
        psiE = {p.name: tuple(jnp.asarray(x) for x in psi[face_of(p)][:2]) for p in pmls}
        psiH = {p.name: tuple(jnp.asarray(x) for x in psi[face_of(p)][2:]) for p in pmls}
        def plain(arr):
            """this K step runs on the lossless diagonal tier of the CPML model: drop conductivity arrays that placed
            Material boxes may have allocated (they belong to the oracle and to k_model)"""
            for name in ("electric_conductivity", "magnetic_conductivity"):
                if getattr(arr, name) is not None:
                    arr = arr.aset(name, None)
            return arr
        arrays = CP.with_psi(plain(Y.with_state(sc, cur["E"], cur["H"], cur["ie"], cur["im"])), psiE, psiH)
        st = Y.impl_forward(sc, arrays, t=1, n=1)
        out = {"E": np.asarray(st[1].fields.E), "H": np.asarray(st[1].fields.H),
               "psi": {face_of(p): [np.asarray(x) for x in (*st[1].fields.psi_E[p.name], *st[1].fields.psi_H[p.name])] for p in pmls}}
        zpsiE = {p.name: tuple(jnp.zeros(p.grid_shape) for _ in range(2)) for p in pmls}
        zero = CP.with_psi(plain(Y.with_state(sc, np.zeros_like(cur["E"]), np.zeros_like(cur["H"]), cur["ie"], cur["im"])), zpsiE, zpsiE)
        tt = jnp.asarray(1, dtype=jnp.int32)
        jE = np.asarray(update_E(tt, zero, sc.objects, sc.config, True).fields.E)
        jH = np.asarray(update_H(tt, zero, sc.objects, sc.config, True).fields.H)
        line = " ".join(["rotpmlfwd", "1"] + CP.pmls_tokens(sc, psiE, psiH)) + " " + CP.yee_tail(sc, cur["E"], cur["H"], cur["ie"], cur["im"], (jE, jH))
        data.append((sc, c, [face_of(p) for p in pmls], [CP.box_of(p) for p in pmls], line, out))
    from .common import h2f
    for r in range(3):
        sc, c, faces_r, boxes_r, line, _ = data[r]
        nxt = data[(r + 1) % 3]
        vals = np.array([h2f(x) for x in ctx.driver.ask(line).split()], dtype=np.float64)
        shp = tuple(nxt[1]["shape"])
        n = 3 * shp[0] * shp[1] * shp[2]
        mE, mH = vals[:n].reshape((3,) + shp), vals[n:2 * n].reshape((3,) + shp)
        ctx.expect_close(f"forward with PML, orientation {(r + 1) % 3} vs model rot(request of orientation {r})", c0,
                         np.concatenate([nxt[5]["E"].ravel(), nxt[5]["H"].ravel()]), np.concatenate([mE.ravel(), mH.ravel()]))
        pos = 2 * n
        for face, b in zip(faces_r, boxes_r):
            rb = (b[5] - b[4], b[1] - b[0], b[3] - b[2])                 # relabelled box extents
            v = rb[0] * rb[1] * rb[2]
            impl = nxt[5]["psi"][rot_face(face)]
            for q in range(4):
                m = vals[pos:pos + v].reshape(rb)
                pos += v
                ctx.expect_close(f"psi[{q}] of {rot_face(face)} in orientation {(r + 1) % 3} vs model rot", c0, impl[q].ravel(), m.ravel())
        ctx.expect_equal("model reply length (PML)", c0, int(vals.size), pos)
    ctx.dist.setdefault("pml_model_compared", {"True": 0})["True"] += 1


# --------------------------------------------------------------------------------------------------- driver
def forced(rng):
    a = rng.randint(0, 2)
    p1 = [("periodic", "periodic")] * 3
    p1[a] = ("pml", "pml")
    b = rng.randint(0, 2)
    p2 = [rng.choice([("pec", "pmc"), ("pmc", "pec"), ("pec", "none")]), rng.choice([("none", "pmc"), ("periodic", "periodic")]),
          rng.choice([("pec", "pec"), ("none", "none")])]
    p2 = rng.shuffle(p2)
    p2[b] = rng.choice([("pml", "none"), ("pec", "pml"), ("pml", "pmc")])
    p3 = rng.shuffle([("pec", "pmc"), ("periodic", "periodic"), rng.choice([("none", "pmc"), ("pec", "none"), ("pmc", "pmc")])])
    p4 = rng.shuffle([("periodic", "periodic"), ("none", "none"), rng.choice([("pec", "none"), ("none", "pmc")])])
    return [
        dict(pairs=p1, sources=["uniform", "dipole_e"], src_axis=[a, None], src_dir=["+", None], mat_mode="arrays", tilt=True,
             pml_explicit=True,
             eps_tier=9, sig_e_full=True, mu_tier=rng.choice([0, 3]), sig_h_full=False, nonuniform=False),
        dict(pairs=p2, sources=["gauss", rng.choice(["dipole_e", "dipole_m"])], src_axis=[b, None], src_dir=["-", None], tilt=True,
             mat_mode="arrays", eps_tier=rng.choice([1, 3]), sig_e_full=False, mu_tier=9, sig_h_full=True),
        # materials through the public Material API, diagonal tier (so the model comparison applies): a box with diagonal
        # permittivity and an electric conductivity whose ONLY non-zero entry is one diagonal component (which one: from the
        # seed; the three orientations put it on xx, yy and zz), and the magnetic analogue
        dict(pairs=p3, sources=["dipole_e", "dipole_m"], mat_mode="boxes", boxes=["diag_sig_e", "diag_sig_h"], tilt=True,
             sig_e_full=False, sig_h_full=False, nonuniform=rng.chance(0.5), init_fields=True),
        # … and full-tensor Materials with a lone off-diagonal entry (permittivity, sigma_E, sigma_H), tiny scene
        dict(pairs=p4, sources=[rng.choice(["dipole_e", "dipole_m"])], mat_mode="boxes",
             boxes=["full_eps", "full_sig_e", "full_sig_h"], sig_e_full=False, sig_h_full=False, nonuniform=False, max_n=5,
             init_fields=False),
    ]


def counters(c):
    d = {"grid": "nonuniform" if c["widths"] else "uniform", "mat_mode": c["mat_mode"], "eps_tier": c["eps_tier"],
         "mu_tier": c["mu_tier"], "sig_e": c["sig_e"], "sig_h": c["sig_h"], "sig_e_full9": c.get("sig_e_full", False),
         "sig_h_full9": c.get("sig_h_full", False), "init_fields": c["init_fields"], "steps": c["steps"]}
    for k, v in c["faces"].items():
        d["face_" + v] = True
    if c.get("pmlpar"):
        d["pml_explicit_params_faces"] = len(c["pmlpar"])
    if any(v != 1.0 for v in c["kappa"].values()):
        d["pml_kappa_graded"] = True
    for s in c["sources"]:
        d["src_" + s["kind"]] = True
        if s.get("azimuth", 0.0) != 0.0:
            d["src_" + s["kind"] + "_tilted"] = True
        if s["kind"] in ("uniform", "gauss"):
            d[f"plane_axis{s['axis']}{s['direction']}"] = True
    for q in c["detectors"]:
        d["det_" + q["kind"] + ("_reduced" if q["reduce"] else "")] = True
    for b in c["boxes"]:
        d["box_" + b["spec"]] = True
        d["box_form_" + b["form"]] = True
        for key in ("sig_e", "sig_h"):
            if b.get(key) is not None:
                d[f"box_{key}_lone_entry_{int(np.flatnonzero(np.asarray(b[key]))[0])}"] = True
    return d


def one_scene(ctx, c0, sample=False):
    d, per, results = run_scene(c0)
    # a scene whose fields stay exactly zero (source swallowed by a wall) is counted, but as trivial
    alive = bool(np.max(np.abs(results[0]["E"])) > 0 and np.max(np.abs(results[0]["H"])) > 0)
    ctx.case(sample=c0 if sample else None, nontrivial=(tuple(c0["shape"]), c0["seed"]) if alive else None,
             fields_nonzero=alive, **counters(c0))
    ctx.impl_property_evals += 1
    if d:
        ctx.violation(c0, d)
    if model_ok(c0, results):
        k_model(ctx, c0, per)
    has_pml = any(v == "pml" for v in c0["faces"].values())
    if has_pml and (ctx.thorough or not ctx.extra.get("pml_k_done")):
        ctx.extra["pml_k_done"] = True          # quick: the first PML scene only
        k_model_pml(ctx, c0, per)
        ctx.dist.setdefault("model_compared", {"True": 0})["True"] += 1


def k_axes(ctx):
    """exhaustive over the three axes: the oriented-axes helpers vs the model, and the polarisation / wave-vector triple of
    `tilted_polarization_vectors` (what every plane source and the Gaussian overlap detector build their tilt from) must be
    relabelled cyclically when axis and polarisation are"""
    j = Y.J()
    jnp = j["jnp"]
    from fdtdx.core.axis import get_oriented_transverse_axes, get_transverse_axes
    from fdtdx.core.misc import tilted_polarization_vectors
    for a in range(3):
        ctx.expect_equal("get_oriented_transverse_axes + axis vs model hvp", {"axis": a},
                         " ".join(str(int(x)) for x in (*get_oriented_transverse_axes(a), a)), ctx.driver.ask(f"hvp {a}"))
        ctx.expect_equal("get_transverse_axes vs model ascending", {"axis": a},
                         " ".join(str(int(x)) for x in get_transverse_axes(a)), ctx.driver.ask(f"ascending {a}"))
    for _ in range(ctx.scale(4, 40)):
        az, el = (ctx.rng.uniform(0.1, 0.7) * ctx.rng.choice([1.0, -1.0]) for _ in range(2))
        th = ctx.rng.uniform(0.0, 6.28)
        d = ctx.rng.choice(["+", "-"])
        use_h = ctx.rng.chance(0.3)
        outs = []
        for a in range(3):
            pol = [0.0, 0.0, 0.0]
            pol[(a + 1) % 3], pol[(a + 2) % 3] = float(np.cos(th)), float(np.sin(th))
            kw = {"fixed_H_polarization_vector" if use_h else "fixed_E_polarization_vector": tuple(pol)}
            e, h, k = tilted_polarization_vectors(direction=d, propagation_axis=a, azimuth_radians=az, elevation_radians=el,
                                                  dtype=jnp.float64, **kw)
            vec = np.stack([np.asarray(e), np.asarray(h), np.asarray(k)])          # (3 vectors, 3 components)
            for _ in range((3 - a) % 3):                                         # back to the labelling of axis 0
                vec = vec[:, [2, 0, 1]]
            outs.append(vec)
        case = {"tilted_polarization_vectors": True, "azimuth": az, "elevation": el, "direction": d, "theta": th, "use_h": use_h}
        for a in (1, 2):
            ctx.expect_close(f"tilted_polarization_vectors: axis {a} relabelled back vs axis 0", case, outs[a].ravel(), outs[0].ravel(),
                             tol=1e-12)
        ctx.case(nontrivial=("tilt", round(az, 6), round(el, 6), d), tilt_helper=True)


def run(ctx):
    k_axes(ctx)
    cases = [gen_case(ctx.rng, ctx.thorough, f) for f in forced(ctx.rng)]
    n = ctx.scale(4, 24)
    while len(cases) < n:
        cases.append(gen_case(ctx.rng, ctx.thorough))
    for i, c in enumerate(cases):
        one_scene(ctx, c, sample=i < 2)


def shrink_variants(c):
    """smaller relatives of a failing case (fewer objects first)"""
    out = []
    if len(c["sources"]) > 1:
        for i in range(len(c["sources"])):
            d = dict(c)
            d["sources"] = [c["sources"][i]]
            out.append(d)
    if c["init_fields"]:
        d = dict(c)
        d["init_fields"] = False
        out.append(d)
    if c["mat_mode"] == "arrays" and (c["eps_tier"] != 1 or c["mu_tier"] != 0 or c["sig_e"] or c["sig_h"]):
        d = dict(c)
        d.update(eps_tier=1, mu_tier=0, sig_e=False, sig_h=False, sig_e_full=False, sig_h_full=False)
        out.append(d)
    if c["steps"] > 4:
        d = dict(c)
        d["steps"] = 4
        out.append(d)
    return out


def search(ctx, hints):
    seen = []
    for h in hints:
        if isinstance(h, dict) and "shape" in h and h not in seen:
            seen.append(h)
    rng = ctx.rng.fork()
    pool = seen + [gen_case(rng, False, f) for f in forced(rng)] + [gen_case(rng, False) for _ in range(ctx.scale(4, 30))]
    for c in pool:
        ctx.impl_property_evals += 1
        try:
            d = property_fails(c)
        except Exception as e:  # a scene the changed code cannot even run in one orientation
            d = None
            ctx.notes.append(f"search: scene raised {type(e).__name__}: {str(e)[:200]}")
        if d:
            best, bd = c, d
            improved = True
            while improved:
                improved = False
                for v in shrink_variants(best):
                    try:
                        dv = property_fails(v)
                    except Exception:
                        dv = None
                    if dv:
                        best, bd, improved = v, dv, True
                        break
            ctx.violation(best, bd)
            return


def replay(ctx, inp):
    return property_fails(inp)
