#!/bin/sh
# development helper: run every claimed check at the given tier/seed, one line per check (not used by MANIFEST)
tier=${1:-quick}; seed=${2:-0}
cd "$(dirname "$0")/.." || exit 1
(cd lean && lake build >/dev/null 2>&1)
for p in $(python3 -c "import json;print(' '.join(c['property_id'] for c in json.load(open('MANIFEST.json'))['checks']))"); do
  s=$(date +%s)
  VERIF_SEED=$seed ./check $p --tier $tier > /tmp/run_all_$p.log 2>&1; rc=$?
  echo "$p rc=$rc $(($(date +%s)-s))s $(grep -E '^(VIOLATION|KNOWN|TIMEOUT)' /tmp/run_all_$p.log | head -2 | cut -c1-150 | tr '\n' ' ')"
done
