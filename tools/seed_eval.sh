#!/bin/sh
TAG=$1; PID=$2; WT=/tmp/mut/$TAG; OUT=/tmp/mut/$TAG.out
cd $WT || exit 9
git checkout -q -- . ; git clean -fdq
run() { PYTHONPATH=$WT/src JAX_PLATFORMS=cpu timeout 400 /venv/bin/python $OUT/demo.py >/tmp/mut/$TAG.demo.$1.log 2>&1; echo "$TAG demo $1 exit $?"; }
run clean
git apply $OUT/patch.diff || { echo "$TAG APPLY FAILED"; exit 8; }
git diff --stat | tail -1
run patched
mkdir -p /tmp/mut/ev/$TAG
cd /verif && FDTDX_REPO=$WT VERIF_EVIDENCE_DIR=/tmp/mut/ev/$TAG timeout 1500 ./check $PID --tier quick --skip-lean > /tmp/mut/$TAG.check.log 2>&1; echo "$TAG check exit $?"; grep -E 'VIOLATION|KNOWN' /tmp/mut/$TAG.check.log | head -5
