#!/usr/bin/env python3
"""Rewrite the generated part of DESIGN.md §10 (between the BEGIN/END markers) from the committed registries:
props/*.json (theorems, partial, not_shown), known_findings.json, seeded/*/meta.json.  Development time only."""
import glob
import json
import os

ROOT = os.path.dirname(os.path.dirname(os.path.abspath(__file__)))
BEGIN, END = "<!-- BEGIN GENERATED TABLES -->", "<!-- END GENERATED TABLES -->"


def esc(s):
    return str(s).replace("|", "\\|").replace("\n", " ")


def main():
    out = [BEGIN, ""]
    out.append("### 10.3 Per-property status (generated from props/*.json)\n")
    out.append("| id | theorems (full / partial) | partial or not shown | quick K rule (abridged) |")
    out.append("|---|---|---|---|")
    for f in sorted(glob.glob(os.path.join(ROOT, "props", "C??.json"))):
        p = json.load(open(f))
        th = p.get("theorems", [])
        full = sum(1 for t in th if t.get("status", "full") == "full")
        part = len(th) - full
        gaps = [esc(x)[:160] for x in (p.get("partial", []) + p.get("not_shown", []))]
        pn = [t["name"].split(".")[-1] for t in th if t.get("status", "full") != "full"]
        if pn:
            gaps.insert(0, "partial theorems: " + ", ".join(pn))
        out.append(f"| {p['property_id']} | {full} / {part} | {esc('; '.join(gaps)) if gaps else '—'} | {esc(p.get('technique', ''))[:150]} |")
    out.append("")
    kf = json.load(open(os.path.join(ROOT, "known_findings.json")))
    out.append("### 10.4 Genuine defects of ymahlau/fdtdx found by the checks (generated from known_findings.json)\n")
    out.append("Repaired (one `fix:` commit each in /repo; these entries suppress nothing):\n")
    for s in kf.get("fixed", []):
        out.append(f"* {esc(s)}")
    out.append("\nRecorded, not repaired (the check prints `KNOWN-FINDING` for exactly this input class and exits 0):\n")
    for k in kf.get("findings", []):
        out.append(f"* **{k['property']}** `{k['signature']}` — {esc(k['what'])}")
    out.append("")
    out.append("### 10.5 Seeded breaking changes written independently of /verif, and which check catches them (generated from seeded/*/meta.json)\n")
    out.append("| seed | property | what was changed | needs | result |")
    out.append("|---|---|---|---|---|")
    for d in sorted(glob.glob(os.path.join(ROOT, "seeded", "*"))):
        mf = os.path.join(d, "meta.json")
        if not os.path.exists(mf):
            continue
        m = json.load(open(mf))
        out.append(f"| {os.path.basename(d)} | {m.get('property')} | {esc(m.get('what', ''))[:220]} | {esc(m.get('needs', ''))[:200]} | {esc(m.get('check_result', ''))[:300]} |")
    out += ["", END]
    p = os.path.join(ROOT, "DESIGN.md")
    s = open(p).read()
    block = "\n".join(out)
    if BEGIN in s and END in s:
        s = s[:s.index(BEGIN)] + block + s[s.index(END) + len(END):]
    else:
        s = s.rstrip("\n") + "\n\n" + block + "\n"
    open(p, "w").write(s)
    print("DESIGN.md tables regenerated")


if __name__ == "__main__":
    main()
